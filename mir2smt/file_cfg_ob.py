"""C10 K2 / C11 K3: structural obligations on emit_file::Worker::on_batch (body = on_batch::{closure#0}, the
`#[emit::span]` macro wraps it) through the control-flow abstraction of cfgabs.py."""
import re

from . import Unsupported, smt
from .smt import b_and, b_or, b_not, i_eq, i_ne, ite, i_add
from . import cfgabs
from .cfg_driver import CfgObligation, native_verdict

FILE = "emitter/file/src/lib.rs"
AF = r"\(Worker\)\.active_file$"
FN = "emit_file::Worker::on_batch::{closure#0}"

# add-only wrapper appended to a copy of the scratch tree: the REAL Worker over an in-memory filesystem, a stepping clock
# and a counting rng (environment only; no logic of the code under test)
WRAPPER = r'''
#[doc(hidden)]
#[allow(dead_code, missing_docs)]
pub mod __m2s_cfg {
    use super::*;
    use std::collections::BTreeMap;
    use std::sync::Mutex;

    #[derive(Clone, Default)]
    pub struct MemFs(pub Arc<Mutex<BTreeMap<PathBuf, Vec<u8>>>>);
    struct MemFile(MemFs, PathBuf);

    impl Write for MemFile {
        fn write(&mut self, buf: &[u8]) -> io::Result<usize> {
            (self.0).0.lock().unwrap().get_mut(&self.1).ok_or(io::ErrorKind::NotFound)?.extend_from_slice(buf);
            Ok(buf.len())
        }
        fn flush(&mut self) -> io::Result<()> { Ok(()) }
    }
    impl File for MemFile {
        fn len(&self) -> io::Result<usize> { Ok((self.0).0.lock().unwrap().get(&self.1).map(|f| f.len()).unwrap_or(0)) }
        fn sync_all(&mut self) -> io::Result<()> { Ok(()) }
    }
    impl Filesystem for MemFs {
        fn create_dir_all(&self, _: &Path) -> io::Result<()> { Ok(()) }
        fn sync_parent(&self, _: &Path) -> io::Result<()> { Ok(()) }
        fn read_dir_files(&self, dir: &Path) -> io::Result<Box<dyn Iterator<Item = PathBuf>>> {
            let v: Vec<PathBuf> = self.0.lock().unwrap().keys().filter(|p| p.parent() == Some(dir)).cloned().collect();
            Ok(Box::new(v.into_iter()))
        }
        fn remove_file(&self, p: &Path) -> io::Result<()> {
            self.0.lock().unwrap().remove(p).map(|_| ()).ok_or(io::ErrorKind::NotFound.into())
        }
        fn open_new(&self, p: &Path) -> io::Result<Box<dyn File + Send + Sync>> {
            let mut m = self.0.lock().unwrap();
            if m.contains_key(p) { return Err(io::ErrorKind::AlreadyExists.into()); }
            m.insert(p.to_owned(), Vec::new());
            Ok(Box::new(MemFile(self.clone(), p.to_owned())))
        }
        fn open_existing(&self, p: &Path) -> io::Result<Box<dyn File + Send + Sync>> {
            if !self.0.lock().unwrap().contains_key(p) { return Err(io::ErrorKind::NotFound.into()); }
            Ok(Box::new(MemFile(self.clone(), p.to_owned())))
        }
    }

    struct StepClock(Arc<Mutex<u64>>);
    impl Clock for StepClock {
        fn now(&self) -> Option<emit::Timestamp> { emit::Timestamp::from_unix(std::time::Duration::from_secs(*self.0.lock().unwrap())) }
    }
    struct CountRng(Mutex<u64>);
    impl Rng for CountRng {
        fn fill<A: AsMut<[u8]>>(&self, mut arr: A) -> Option<A> {
            let mut c = self.0.lock().unwrap();
            for b in arr.as_mut() { *c += 1; *b = *c as u8; }
            Some(arr)
        }
    }

    /// `batches` one-event batches through the real `Worker::on_batch`, the clock advancing `step_secs` before each
    /// batch after the first (roll by minute). Returns, after every batch, (on_batch returned Ok, number of files of the set).
    pub fn run_batches(max_files: usize, batches: usize, step_secs: u64, reuse_files: bool) -> Vec<(bool, usize)> {
        let fs = MemFs::default();
        let secs = Arc::new(Mutex::new(1_700_000_000u64));
        let mut w = Worker::new(Arc::new(InternalMetrics::default()), fs.clone(), StepClock(secs.clone()), CountRng(Mutex::new(0)),
            "logs".to_owned(), "app".to_owned(), "log".to_owned(), RollBy::Minute, reuse_files, max_files, 1 << 20, b"\n");
        let mut out = Vec::new();
        for i in 0..batches {
            if i > 0 { *secs.lock().unwrap() += step_secs; }
            let mut b = EventBatch::new();
            b.push(format!("{{\"event\":{}}}\n", i).into_bytes().into_boxed_slice());
            let ok = w.on_batch(b).is_ok();
            let n = fs.0.lock().unwrap().keys().filter(|p| {
                let name = p.file_name().and_then(|n| n.to_str()).unwrap_or("");
                p.parent() == Some(Path::new("logs")) && name.starts_with("app.") && name.ends_with(".log")
            }).count();
            out.push((ok, n));
        }
        out
    }

    /// One batch per entry of `sizes` (a single event of that many bytes), all within one period, size limit `max_file_size_bytes`.
    /// Per batch: "PANIC", or "<on_batch returned Ok> <number of files of the set>".
    pub fn run_sized(max_file_size_bytes: usize, sizes: &[usize]) -> Vec<String> {
        run_sized_step(max_file_size_bytes, sizes, 1)
    }

    /// The same with the clock moved by `step_secs` (may be negative) before every batch after the first; the first reading is the
    /// 20th second of a minute, so +-1 stays in the period and +-60 lands in the next / previous one.
    pub fn run_sized_step(max_file_size_bytes: usize, sizes: &[usize], step_secs: i64) -> Vec<String> {
        let fs = MemFs::default();
        let secs = Arc::new(Mutex::new(1_700_000_000u64));
        let mut w = Worker::new(Arc::new(InternalMetrics::default()), fs.clone(), StepClock(secs.clone()), CountRng(Mutex::new(0)),
            "logs".to_owned(), "app".to_owned(), "log".to_owned(), RollBy::Minute, false, 1000, max_file_size_bytes, b"\n");
        let mut out = Vec::new();
        for (i, n) in sizes.iter().enumerate() {
            // (rolling ids are millis within the period: a step keeps file names distinct)
            if i > 0 { let mut t = secs.lock().unwrap(); *t = (*t as i64 + step_secs) as u64; } else { *secs.lock().unwrap() += 1; }
            let mut b = EventBatch::new();
            b.push(vec![b'a' + (i as u8 % 26); *n].into_boxed_slice());
            let r = std::panic::catch_unwind(std::panic::AssertUnwindSafe(|| w.on_batch(b).is_ok()));
            match r {
                Err(_) => { out.push("PANIC".to_owned()); break; }
                Ok(ok) => out.push(format!("{} {}", ok, fs.0.lock().unwrap().len())),
            }
        }
        out
    }
}
'''


def _or(xs):
    return b_or(*xs) if xs else False


def build(P):
    cands = [b for b in P.bodies if b.kind == "fn" and b.name.endswith("::on_batch::{closure#0}") and b.self_ty == "Worker"]
    if len(cands) != 1:
        raise Unsupported("Worker::on_batch::{closure#0}: %d bodies in the MIR dump" % len(cands))
    body = cands[0]
    A = cfgabs.Abstraction(P, body, watch_assign=[AF], loop_iters=2, name="on_batch")
    return A


def read_effects(P, A, checks):
    """Effects of on_batch that (re)fill the file set: direct `ActiveFileSet::read(set, ..)` calls and calls of the private helper
    `Worker::read_file_set(self, set)` - the latter only on the strength of a sub-obligation on the helper's OWN MIR body:
    every path through it calls `ActiveFileSet::read` exactly once, on its file-set parameter.
    -> ([(effect, index of the file-set argument)], helper abstraction | None, [must-hold queries on the helper])"""
    out = [(e, 0) for e in A.calls(r"^ActiveFileSet::read$")]
    via = A.calls(r"^Worker::read_file_set$")
    H, must = None, []
    if via:
        hb = [b for b in P.by_method.get("read_file_set", []) if b.self_ty == "Worker" and not b.is_closure]
        checks.append(("helper Worker::read_file_set: exactly one MIR body (%d)" % len(hb), len(hb) == 1))
        if len(hb) == 1:
            H = cfgabs.Abstraction(P, hb[0], name="read_file_set")
            hr = H.calls(r"^ActiveFileSet::read$")
            checks.append(("helper read_file_set: one ActiveFileSet::read call site, on its file-set parameter _2 (%s)" % [H.derive(e.ops[0]) for e in hr],
                           len(hr) == 1 and H.derive(hr[0].ops[0]) == "_2"))
            checks.append(("helper read_file_set: no indirect call, has a return",
                           not [e for e in H.effects if e.kind == "call" and e.method == "<indirect>"] and len(H.returns) > 0))
            bad = []
            for cb in cfgabs.nested_closures(P, hb[0]):
                for blk in cb.blocks.values():
                    t = blk.term
                    if t and t[0] == "call" and re.search(r"ActiveFileSet.*::(read|apply_retention)\b|remove_file|open_new|open_existing", t[2]):
                        bad.append(t[2][:60])
            checks.append(("helper read_file_set: its closures contain no file-set / filesystem effect (%s)" % bad[:2], not bad))
            if len(hr) == 1:
                must = [("helper_read_file_set_calls_read_on_every_path", H, [_or([b_and(r.guard, b_not(hr[0].guard)) for r in H.returns])])]
                out += [(e, 1) for e in via]
    return out, H, must


def _need(A, what, lst, checks):
    checks.append(("anchor: %s found in the MIR of on_batch (%d call sites)" % (what, len(lst)), len(lst) > 0))
    return lst


WATCHED = r"(Option::take|write_event|EventBatch::advance|EventBatch::current|::flush|::sync_all|ActiveFileSet::read|apply_retention|" \
          r"try_open_create|try_open_reuse|remove_file|open_new|open_existing|BatchError::retry|create_dir_all|read_file_set)$"


def obligations(P, A, native_for=None):
    obs = []
    checks = []
    take = _need(A, "Option::take(self.active_file)", A.calls(r"^Option::take$", 0, AF), checks)
    assign = _need(A, "assignment to self.active_file", A.assigns(AF), checks)
    flush = _need(A, "File::flush", A.calls(r"as Write>::flush$"), checks)
    sync = _need(A, "File::sync_all", A.calls(r"as File>::sync_all$"), checks)
    write = _need(A, "ActiveFile::write_event", A.calls(r"^ActiveFile::write_event$"), checks)
    adv = _need(A, "EventBatch::advance", A.calls(r"^EventBatch::advance$"), checks)
    cur = _need(A, "EventBatch::current", A.calls(r"^EventBatch::current$"), checks)
    retry = _need(A, "BatchError::retry", A.calls(r"^BatchError::retry$"), checks)
    reads, H, helper_must = read_effects(P, A, checks)
    read = _need(A, "ActiveFileSet::read (directly or through Worker::read_file_set)", [e for e, _ in reads], checks)
    reten = _need(A, "ActiveFileSet::apply_retention", A.calls(r"^ActiveFileSet::apply_retention$"), checks)
    create = _need(A, "ActiveFile::try_open_create", A.calls(r"^ActiveFile::try_open_create$"), checks)
    reuse = _need(A, "ActiveFile::try_open_reuse", A.calls(r"^ActiveFile::try_open_reuse$"), checks)
    rets = A.returns
    checks.append(("on_batch has a return", len(rets) > 0))
    # extractor-level facts (fail closed)
    others = [e for e in A.effects if e.kind == "call" and any(re.search(AF, a or "") for a in e.args) and e not in take]
    checks.append(("self.active_file is passed to no call other than Option::take (%s)" % [e.name for e in others][:3], not others))
    batch = set(e.args[0] for e in adv + cur)
    checks.append(("advance/current operate on one batch place (%s)" % sorted(batch), len(batch) == 1))
    bpath = sorted(batch)[0] if batch else "?"
    checks.append(("every BatchError::retry call carries the batch place %s as its 2nd argument (%s)" % (bpath, [e.args for e in retry][:4]),
                   all(len(e.args) == 2 and e.args[1] == bpath for e in retry)))
    # closures are not followed: none of them may contain a watched effect, except the two map_err closures analysed below
    nested = cfgabs.nested_closures(P, A.body)
    no_retry_sites, closure_abs = [], []
    for e in A.calls(r"^Result::map_err$"):
        for cty in e.closures:
            cb = cfgabs.closure_body(P, A.body, cty)
            if cb is None:
                continue
            ca = cfgabs.Abstraction(P, cb, name="closure@" + cty.split(":")[-3].split("/")[-1] + ":" + ":".join(cty.split(":")[-3:-1]).strip("} "))
            nr = ca.calls(r"^BatchError::no_retry$")
            if nr:
                closure_abs.append((e, ca, nr))
    analysed = set(id(ca.body) for _, ca, _ in closure_abs)
    bad = []
    for cb in nested:
        if id(cb) in analysed:
            continue
        for blk in cb.blocks.values():
            t = blk.term
            if t and t[0] == "call":
                try:
                    pc = cfgabs.Program.parse_callee(t[2])
                    nm = "%s::%s" % (pc["self_ty"], pc["method"])
                except Exception:
                    nm = t[2]
                if re.search(WATCHED, nm):
                    bad.append("%s calls %s" % (cb.name[-40:], nm))
    checks.append(("no closure nested in on_batch contains a watched effect (%s)" % bad[:3], not bad))
    indirect = [e for e in A.effects if e.kind == "call" and e.method == "<indirect>"]
    checks.append(("no indirect call in on_batch", not indirect))
    bounds = ("all abstract paths of the MIR of on_batch::{closure#0} with the write loop unrolled 2 complete iterations (+ a partial third); "
              "panicking callees end a path (unwind edges and cleanup blocks are not followed); closures are not followed")

    def ok(e):
        return i_eq(e.out, 0)

    def err(e):
        return i_eq(e.out, 1)

    # ---- o1
    v1 = _or([b_and(x.guard, i_eq(x.val[0], 1), b_not(b_and(A.some_before(x, flush, ok), A.some_before(x, sync, ok)))) for x in assign])
    v1b = _or([b_and(w.guard, b_not(A.some_before(w, take))) for w in write])
    obs.append(CfgObligation(
        "K2_o1_active_file_poisoning", [A], [FN], bounds,
        [("assign_some_only_after_flush_and_sync_ok", A, [v1]), ("taken_before_any_write", A, [v1b])],
        [("good_path_reaches_assignment", A, [_or([b_and(x.guard, i_eq(x.val[0], 1)) for x in assign])])],
        [("FALSE_assign_only_after_try_open_reuse", A, [_or([b_and(x.guard, b_not(A.some_before(x, reuse))) for x in assign])])],
        static_checks=checks))
    # ---- o2
    werr = _or([b_and(w.guard, err(w)) for w in write])
    rid = lambda r: _or([i_eq(r.val[1], k.id) for k in retry])
    v2a = _or([b_and(r.guard, werr, b_not(b_and(i_eq(r.val[0], 1), rid(r)))) for r in rets])
    n_adv = "(+ 0 0 %s)" % " ".join(smt.lit(ite(a.guard, 1, 0)) for a in adv)
    n_ok = "(+ 0 0 %s)" % " ".join(smt.lit(ite(b_and(w.guard, ok(w)), 1, 0)) for w in write)
    v2b = _or([b_and(r.guard, "(not (= %s %s))" % (n_adv, n_ok)) for r in rets])
    v2c = _or([b_and(a.guard, w.guard, err(w)) for a in adv for w in write if A.before(w, a)])
    v2d = _or([b_and(w1.guard, w2.guard, b_not(_or([a.guard for a in adv if A.before(w1, a) and A.before(a, w2)])))
               for w1 in write for w2 in write if A.before(w1, w2)])
    v2e = _or([b_and(a1.guard, a2.guard, b_not(_or([w.guard for w in write if A.before(a1, w) and A.before(w, a2)])))
               for a1 in adv for a2 in adv if A.before(a1, a2)])
    v2f = _or([b_and(a.guard, b_not(A.some_before(a, write, ok))) for a in adv])
    obs.append(CfgObligation(
        "K2_o2_write_error_returns_retry_with_batch", [A], [FN], bounds,
        [("write_err_returns_Err_retry_carrying_batch", A, [v2a]), ("advances_equal_successful_writes_at_return", A, [v2b]),
         ("no_advance_after_failed_write", A, [v2c]), ("advance_between_consecutive_writes", A, [v2d]),
         ("write_between_consecutive_advances", A, [v2e]), ("advance_only_after_successful_write", A, [v2f])],
        [("path_with_failed_write_returns", A, [_or([b_and(r.guard, werr) for r in rets])]),
         ("path_with_two_successful_writes_returns", A, [_or([b_and(r.guard, "(= %s 2)" % n_ok) for r in rets])])],
        [("FALSE_advance_never_called", A, [_or([a.guard for a in adv])]),
         ("FALSE_write_err_returns_Ok", A, [_or([b_and(r.guard, werr, i_ne(r.val[0], 0)) for r in rets])])],
        static_checks=checks))
    # ---- o3
    fserr = b_or(_or([b_and(f.guard, err(f)) for f in flush]), _or([b_and(s.guard, err(s)) for s in sync]))
    v3a = _or([b_and(r.guard, fserr, i_ne(r.val[0], 1)) for r in rets])
    v3b = b_and(fserr, _or([x.guard for x in assign]))
    must3 = [("flush_or_sync_err_never_returns_Ok", A, [v3a]), ("flush_or_sync_err_leaves_active_file_unset", A, [v3b])]
    ch3 = list(checks)
    ch3.append(("the two map_err closures after flush / sync_all were found and call BatchError::no_retry (%d)" % len(closure_abs),
                len(closure_abs) == 2))
    if len(closure_abs) == 2:
        ids = [e.id for e, _, _ in closure_abs]
        v3c = _or([b_and(r.guard, fserr, b_not(_or([i_eq(r.val[1], k) for k in ids]))) for r in rets])
        must3.append(("flush_or_sync_err_returns_the_map_err_closure_value", A, [v3c]))
        for e, ca, nr in closure_abs:
            must3.append(("%s_returns_no_retry" % re.sub(r"[^A-Za-z0-9]", "_", ca.name), ca,
                          [_or([b_and(r.guard, b_not(_or([i_eq(r.val[1], k.id) for k in nr]))) for r in ca.returns])]))
    obs.append(CfgObligation(
        "K2_o3_flush_sync_error_not_acknowledged", [A] + [ca for _, ca, _ in closure_abs], [FN], bounds,
        must3, [("path_with_flush_error_returns", A, [_or([b_and(r.guard, _or([b_and(f.guard, err(f)) for f in flush])) for r in rets])]),
                ("path_with_sync_error_returns", A, [_or([b_and(r.guard, _or([b_and(s.guard, err(s)) for s in sync])) for r in rets])])],
        [("FALSE_flush_err_returns_retry", A, [_or([b_and(r.guard, fserr, b_not(rid(r))) for r in rets])])],
        static_checks=ch3))
    # ---- r1 (C11)
    vr_a = _or([b_and(c.guard, b_not(A.some_before(c, reten))) for c in create])
    vr_b = _or([b_and(c.guard, b_not(A.some_before(c, read))) for c in create])

    def concretise(ctx, qname, cand):
        if not qname.endswith("create_only_after_read_of_the_file_set"):
            return "inconclusive", "abstract counter-path for %s; candidate only" % qname
        if native_for is None:
            return "inconclusive", "no native concretisation available"
        labels = [c["effect"] for c in cand]
        roll = any("try_open_create" in l for l in labels) and not any("ActiveFileSet::read" in l or "read_file_set" in l for l in labels) \
            and any("Option::filter" in l for l in labels) and not any("create_dir_all" in l for l in labels)
        if not roll:
            return "inconclusive", "candidate path is not of the shape this unit can concretise (active file present, rolled in-process)"
        # active file present (is_none = false), filter drops it (new period), no directory read, create succeeds:
        # k+1 one-event batches, each in a new minute, max_files = k
        main = ("use emit_file::__m2s_cfg as v;\n\nfn main() {\n    // C11: after every batch the set holds at most the configured maximum number of files\n"
                "    let max_files = 3usize;\n    let counts = v::run_batches(max_files, 6, 60, false);\n    println!(\"{:?}\", counts);\n"
                "    for (i, (ok, n)) in counts.iter().enumerate() {\n"
                "        assert!(*ok, \"batch {} was not written\", i);\n"
                "        assert!(*n <= max_files, \"after batch {} the set holds {} files, configured maximum {}\", i, n, max_files);\n    }\n}\n")
        return native_verdict(ctx, "K3_r1_retention_before_every_create", native_for(), main, "emitter/file", [(FILE, WRAPPER)],
                              note="abstract counter-path: active file present -> filter() drops it -> apply_retention on a file set "
                                   "that was never read -> try_open_create; concretised as 6 one-event batches one minute apart, max_files = 3")

    obs.append(CfgObligation(
        "K3_r1_retention_before_every_create", [A] + ([H] if H is not None else []),
        [FN] + (["emit_file::Worker::read_file_set"] if H is not None else []), bounds,
        [("create_only_after_apply_retention", A, [vr_a]), ("create_only_after_read_of_the_file_set", A, [vr_b])] + helper_must,
        [("path_reaches_try_open_create_after_read", A, [_or([b_and(c.guard, A.some_before(c, read)) for c in create])])],
        [("FALSE_create_only_after_try_open_reuse", A, [_or([b_and(c.guard, b_not(A.some_before(c, reuse))) for c in create])])],
        concretise=concretise, static_checks=checks))
    return obs


# ---------------------------------------------------------------- r3 (C11): the set only touches its own files

FS_OPS = ("remove_file", "open_new", "open_existing")


def r3_obligation(P, A):
    """`remove_file` / `open_existing` / `open_new` are only ever called with a path built from the set's directory joined with
    ONE name that came out of `read` (the file set's own list) or out of `file_name(..)`. Static provenance of the path
    arguments (single-definition def chains, `Abstraction.derive`) + precedence queries on the four bodies involved."""
    checks = []
    R = cfgabs.Abstraction(P, P.find_fn("ActiveFileSet", "apply_retention"), name="apply_retention")
    C = cfgabs.Abstraction(P, P.find_fn("ActiveFile", "try_open_create"), name="try_open_create")
    U = cfgabs.Abstraction(P, P.find_fn("ActiveFile", "try_open_reuse"), name="try_open_reuse")
    # who calls the three filesystem operations at all
    callers = set()
    for body in P.bodies:
        if body.kind != "fn":
            continue
        for blk in body.blocks.values():
            t = blk.term
            if t and t[0] == "call":
                try:
                    pc = cfgabs.Program.parse_callee(t[2])
                except Exception:
                    continue
                if pc["method"] in FS_OPS and (pc["trait"] == "Filesystem" or pc["self_ty"] in ("Filesystem",)):
                    if body.trait != "Filesystem":          # forwarding impls (&F, Box<dyn ..>) and StdFilesystem itself
                        callers.add("%s::%s" % (body.self_ty, body.method))
    want = {"ActiveFileSet::apply_retention", "ActiveFile::try_open_create", "ActiveFile::try_open_reuse"}
    checks.append(("the only callers of Filesystem::{remove_file, open_new, open_existing} outside Filesystem impls are %s (found %s)" % (
        sorted(want), sorted(callers)), callers == want))
    # try_open_*: the path handed to the filesystem is the function's own path parameter
    for X, op in ((C, "open_new"), (U, "open_existing")):
        es = [e for e in X.effects if e.kind == "call" and e.method in FS_OPS]
        checks.append(("%s calls exactly %s, with the path derived as as_ref(_2) (%s)" % (X.name, op, [(e.method, X.derive(e.ops[1])) for e in es]),
                       len(es) == 1 and es[0].method == op and X.derive(es[0].ops[1]) == "as_ref(_2)"))
    # apply_retention: remove_file(dir joined with one popped member of the set's own list)
    rem = [e for e in R.effects if e.kind == "call" and e.method in FS_OPS]
    frm = R.calls(r"^<PathBuf as From>::from$")
    psh = R.calls(r"^PathBuf::push$")
    ok = bool(rem) and all(e.method == "remove_file" and R.derive(e.ops[1]) == "deref(from(_1(ActiveFileSet).dir))" for e in rem)
    checks.append(("apply_retention only calls remove_file, on a PathBuf made from self.dir (%s)" % sorted(set(R.derive(e.ops[1]) for e in rem)), ok))
    ploc = sorted(set(e.dest for e in frm))
    checks.append(("apply_retention: the path is pushed to at one site, with unwrap(pop(self.file_set)) (%s)" % sorted(set(R.derive(e.ops[1]) for e in psh)),
                   len(ploc) == 1 and bool(psh) and len(set(e.blk for e in psh)) == 1 and all(
                       e.args[0] == ploc[0] and R.derive(e.ops[1]) == "unwrap(pop(_1(ActiveFileSet).file_set))" for e in psh)))
    others = [e for e in R.effects if e.kind == "call" and e not in psh and any(a == (ploc[0] if ploc else "?") and R.arg_is_mut_ref(e, i) for i, a in enumerate(e.args))]
    checks.append(("apply_retention: nothing else mutates the path (%s)" % [e.name for e in others][:3], not others))
    # who writes ActiveFileSet::file_set
    writers = set()
    for body in P.bodies:
        if body.kind != "fn" or body.self_ty != "ActiveFileSet":
            continue
        for blk in body.blocks.values():
            for st in blk.stmts:
                if st[0] == "assign" and st[1][0] == "field" and "Vec<std::string::String>" in st[1][3]:
                    writers.add(body.method)
    checks.append(("ActiveFileSet::file_set is assigned only in `read` (found %s)" % sorted(writers), writers <= {"read"} and "read" in writers))
    # on_batch: the two paths
    create = A.calls(r"^ActiveFile::try_open_create$")
    reuse = A.calls(r"^ActiveFile::try_open_reuse$")
    reads, H, helper_must = read_effects(P, A, checks)
    read = [e for e, _ in reads]
    cfn = A.calls(r"^ActiveFileSet::current_file_name$")
    pushes = A.calls(r"^PathBuf::push$")
    must = []
    sets = sorted(set(A.derive(e.ops[i]) for e, i in reads))
    if len(create) == 1 and len(reuse) == 1 and len(read) >= 1 and len(cfn) == 1 and len(sets) == 1:
        pc_, pu_ = create[0].args[1], reuse[0].args[1]
        push_c = [e for e in pushes if e.args[0] == pc_]
        push_u = [e for e in pushes if e.args[0] == pu_]
        dc, du = A.derive(create[0].ops[1]), A.derive(reuse[0].ops[1])
        checks.append(("on_batch: try_open_create gets a PathBuf made from self.dir (%s), pushed to once with the result of file_name(..) (%s)" % (
            dc, [A.derive(e.ops[1])[:24] for e in push_c]),
            re.fullmatch(r"from\(clone\(_1\.1\(Worker\)\.dir\)\)", dc) is not None and len(push_c) == 1 and A.derive(push_c[0].ops[1]).startswith("file_name(")))
        setv = sets[0]
        checks.append(("on_batch: try_open_reuse gets a PathBuf made from self.dir (%s), pushed to once with the payload of current_file_name "
                       "of the file set `read` filled (%s)" % (du, [A.derive(e.ops[1])[:40] for e in push_u]),
                       du == "from(_1.1(Worker).dir)" and len(push_u) == 1 and
                       A.derive(push_u[0].ops[1]) == "current_file_name(%s) as Some.0" % setv and A.derive(cfn[0].ops[0]) == setv))
        mut = [e for e in A.effects if e.kind == "call" and e not in pushes and
               any(a in (pc_, pu_) and A.arg_is_mut_ref(e, i) for i, a in enumerate(e.args))]
        checks.append(("on_batch: nothing but the two pushes mutates the two paths (%s)" % [e.name for e in mut][:3], not mut))
        if len(push_c) == 1 and len(push_u) == 1:
            must = [("create_after_its_push", A, [b_and(create[0].guard, b_not(A.some_before(create[0], push_c)))]),
                    ("reuse_after_its_push", A, [b_and(reuse[0].guard, b_not(A.some_before(reuse[0], push_u)))]),
                    ("current_file_name_only_after_read", A, [b_and(cfn[0].guard, b_not(A.some_before(cfn[0], read)))])]
    else:
        checks.append(("on_batch: one call site each of try_open_create, try_open_reuse, current_file_name, and reads of one file set (%s)" % sets, False))
    # apply_retention, per iteration: from < push < remove_file
    v = _or([b_and(x.guard, b_not(_or([b_and(f.guard, p.guard) for f in frm for p in psh
                                      if f.node[1] == x.node[1] and p.node[1] == x.node[1] and R.before(f, p) and R.before(p, x)])))
             for x in rem])
    must.append(("retention_removes_only_dir_joined_with_one_popped_member", R, [v]))
    must += helper_must
    wit = [("retention_reaches_remove_file_twice", R, [b_and(*[x.guard for x in rem[:2]])] if len(rem) >= 2 else [False]),
           ("on_batch_reaches_try_open_reuse", A, [_or([e.guard for e in reuse])])]
    false = [("FALSE_remove_file_never_called", R, [_or([x.guard for x in rem])]),
             ("FALSE_create_only_after_reuse_push", A, [_or([b_and(c.guard, b_not(A.some_before(c, [e for e in pushes if e.args[0] != c.args[1]]))) for c in create])])]
    return CfgObligation(
        "K3_r3_only_own_paths_reach_the_filesystem", [A, R, C, U] + ([H] if H is not None else []),
        [FN, "emit_file::ActiveFileSet::apply_retention", "emit_file::ActiveFile::try_open_create", "emit_file::ActiveFile::try_open_reuse"],
        "static provenance of the path arguments over single-definition def chains + precedence queries on all abstract paths of the four bodies "
        "(apply_retention's loop unrolled 2 iterations); WHICH names `read` admits into the set (membership = starts_with(prefix) && ends_with(ext)) "
        "is the Kani kernel K2, not this obligation",
        must, wit, false, static_checks=checks)


# ---------------------------------------------------------------- r2 (C11 K3): the keep-the-active-file test, engine E2 (integers)

USIZE_MAX = (1 << 64) - 1
R2_VECTORS = [(10, 5, 100), (10, 5, 15), (10, 5, 14), (10, 5, 9), (1, 1, 0), (20, 1, 20), (3, 3, 6), (7, 1, 7), (64, 64, 128)]


def r2_locate(P, A):
    """The `file.filter(|file| ..)` closure inside on_batch, found by its shape."""
    c = []
    for b in cfgabs.nested_closures(P, A.body):
        if len(b.params) == 2 and simple_type_(b.params[1][1]) == "ActiveFile" and (b.ret_ty or "").strip() == "bool":
            dn = " ".join(b.debug)
            if "remaining_bytes" in dn and "max_file_size_bytes" in dn and "file_ts" in dn:
                c.append(b)
    if len(c) != 1:
        raise Unsupported("the keep-the-active-file closure (|file: &ActiveFile| -> bool reading remaining_bytes, max_file_size_bytes, file_ts) "
                          "was found %d times among the closures of on_batch" % len(c))
    return c[0]


def simple_type_(t):
    from .program import simple_type
    return simple_type(t)


def r2_encoding(P, A):
    from . import summaries as base
    from .symex import Executor, Agg, IntV, BoolV, RefV, Opaque
    from .engine import Encoding
    body = r2_locate(P, A)
    cap = {}
    for name, place in body.debug.items():
        m = re.fullmatch(r"\(\*\(_1\.(\d+): &[^)]*\)\)", place)
        if m:
            cap[name] = int(m.group(1))
    want = {"rem": [k for k in cap if k.endswith("remaining_bytes")], "max": [k for k in cap if k.endswith("max_file_size_bytes")],
            "ts": [k for k in cap if k.endswith("file_ts")]}
    if any(len(v) != 1 for v in want.values()) or len(cap) != 3:
        raise Unsupported("closure captures are not exactly (remaining_bytes, max_file_size_bytes, file_ts) by reference: %s" % body.debug)
    fields = A.struct_fields("ActiveFile")
    if not fields or "file_size_bytes" not in fields or "file_ts" not in fields:
        raise Unsupported("struct ActiveFile { .. file_ts, file_size_bytes .. } not found in the source")
    i_size, i_ts = fields.index("file_size_bytes"), fields.index("file_ts")

    class Summ:
        """summaries.py + ONE extra: a String comparison between `file.file_ts` and the captured `file_ts` (`==`, `!=`, `<`, `<=`, `>`,
        `>=`) is a predicate over ONE free integer C = cmp(file.file_ts, file_ts) in {-1, 0, 1} (a total order, which is all the
        closure can observe of the two texts)"""
        used = 0

        def __init__(self, C):
            self.C = C

        def lookup(self, pc):
            if pc["self_ty"] == "String" and pc["trait"] in ("PartialEq", "PartialOrd") and pc["method"] in ("eq", "ne", "lt", "le", "gt", "ge"):
                def f(ex, pc, a, st, g, m=pc["method"]):
                    def is_file(x):
                        return isinstance(x, RefV) and x.cell == ("ext", "file") and x.path == (("f", i_ts),)

                    def is_cap(x):
                        return isinstance(x, RefV) and x.cell == ("ext", "ts")
                    if is_file(a[0]) and is_cap(a[1]):
                        c = self.C
                    elif is_cap(a[0]) and is_file(a[1]):
                        c = smt.i_sub(0, self.C)
                    else:
                        raise Unsupported("String comparison on something else than file.file_ts and the captured file_ts")
                    Summ.used += 1
                    t = {"eq": smt.i_eq(c, 0), "ne": smt.i_ne(c, 0), "lt": smt.i_lt(c, 0), "le": smt.i_le(c, 0),
                         "gt": smt.i_lt(0, c), "ge": smt.i_le(0, c)}[m]
                    return BoolV(ex.S.define_bool("scmp", t)), g
                return f
            return base.lookup(pc)

        def describe(self, pc):
            if pc["self_ty"] == "String":
                return "String comparison of file.file_ts with file_ts as a predicate over the free integer C = cmp(..) in {-1, 0, 1}"
            return base.describe(pc)

        constant = staticmethod(base.constant)
        is_foreign_adt = staticmethod(base.is_foreign_adt)

    ex = Executor(P, summaries=None)
    S = ex.S
    fsz = S.declare_int("file_size_bytes", 0, USIZE_MAX)
    rem = S.declare_int("remaining_bytes", 0, USIZE_MAX)
    mx = S.declare_int("max_file_size_bytes", 0, USIZE_MAX)
    E = S.declare_int("file_ts_cmp", -1, 1)
    ex.summaries = Summ(E)
    e = Encoding("keep_closure", ex)
    try:
        ffields = [Opaque("ActiveFile.%s" % f) for f in fields]
        ffields[i_size] = IntV("usize", fsz)
        env = [None, None, None]
        env[cap[want["rem"][0]]] = RefV(("ext", "rem"))
        env[cap[want["max"][0]]] = RefV(("ext", "max"))
        env[cap[want["ts"][0]]] = RefV(("ext", "ts"))
        store = {("ext", "file"): Agg("struct", "ActiveFile", ffields), ("ext", "rem"): IntV("usize", rem), ("ext", "max"): IntV("usize", mx),
                 ("ext", "ts"): Opaque("captured file_ts")}
        ex.tag = "keep"
        rv, st, g = ex.exec_body(body, [Agg("struct", "closure", env), RefV(("ext", "file"))], store, True)
        if not isinstance(rv, BoolV):
            raise Unsupported("closure did not return bool")
        e.inputs = [("file_size_bytes", fsz), ("remaining_bytes", rem), ("max_file_size_bytes", mx), ("file_ts_cmp", E)]
        e.outputs = [("keep", rv.t)]
        e.ret_guard = g
    except Unsupported as u:
        e.error = "unsupported MIR in the keep-the-active-file closure: %s" % u
    return e, body


def r2_native_main():
    src = ["use emit_file::__m2s_cfg as v;", "fn main() {"]
    for a, b, l in R2_VECTORS:
        src.append("    println!(\"R2 %d %d %d {}\", v::run_sized(%d, &[%d, %d]).join(\" | \"));" % (a, b, l, l, a, b))
    src.append("}")
    return "\n".join(src) + "\n"


def r2_vectors(stdout):
    """Native observation through the real Worker: after a first batch of `a` bytes into a fresh file (size a) a second batch of `b` bytes in
    the same period keeps the file (still 1 file) iff the closure returned true; a panic is a panic of the closure's arithmetic."""
    v, problems = [], []
    for ln in stdout.split("\n"):
        w = ln.split()
        if len(w) < 5 or w[0] != "R2":
            continue
        a, b, l = int(w[1]), int(w[2]), int(w[3])
        rest = " ".join(w[4:]).split(" | ")
        if rest[0] != "true 1":
            problems.append("vector %s: the first batch did not create exactly one file (%s)" % (w[1:4], rest[0]))
            continue
        inp = {"file_size_bytes": a, "remaining_bytes": b, "max_file_size_bytes": l, "file_ts_cmp": 0}
        if len(rest) < 2 or rest[1] == "PANIC":
            v.append(("a%d_b%d_L%d" % (a, b, l), inp, {"panic": True, "out": {}}))
        elif rest[1] in ("true 1", "true 2"):
            v.append(("a%d_b%d_L%d" % (a, b, l), inp, {"panic": False, "out": {"keep": rest[1] == "true 1"}}))
        else:
            problems.append("vector %s: unexpected native outcome %r" % (w[1:4], rest[1]))
    if len(v) < 6:
        problems.append("only %d native vectors for the keep-the-active-file closure" % len(v))
    return v, problems


def r2_obligation(P, A, enc, workdir):
    from .engine import Query
    from .driver import Obligation
    from .smt import i_le, i_add, b_eq
    q = []
    if not enc.error:
        i, o = dict(enc.inputs), dict(enc.outputs)
        pre = i_le(i_add(i["file_size_bytes"], i["remaining_bytes"]), USIZE_MAX)
        spec = b_and(i_le(i_add(i["file_size_bytes"], i["remaining_bytes"]), i["max_file_size_bytes"]), smt.i_eq(i["file_ts_cmp"], 0))
        pan = enc.panics()
        q = [Query("K3_r2_keep_test_panic_free", enc, [pre, _or([p.guard for p in pan])], fast_z3=True),
             Query("K3_r2_keep_iff_fits_and_same_period", enc, [pre, enc.ret_guard, b_not(b_eq(o["keep"], spec))], fast_z3=True)]

    def replay(model):
        # models may need sizes nobody can allocate: re-solve the violated query with small sizes, then run them through the real Worker
        import os
        small = None
        for qq in q:
            a = qq.answers.get("cvc5")
            if a is None or a.status != "sat":
                continue
            ii = dict(enc.inputs)
            extra = [i_le(1, ii["file_size_bytes"]), i_le(ii["file_size_bytes"], 64), i_le(1, ii["remaining_bytes"]), i_le(ii["remaining_bytes"], 64),
                     i_le(ii["max_file_size_bytes"], 256)]
            path = os.path.join(workdir, "r2_small_%s.smt2" % qq.name)
            with open(path, "w") as f:
                f.write(qq.text(extra=extra))
            b = smt.run_solver("cvc5", path, 60, extra_args=["--no-arith-brab"])
            if b.status == "sat":
                small = {lab: b.model.get(t) for lab, t in enc.inputs}
                break
        if small is None:
            return ("fn main() { println!(\"the solver's counterexample %s has no instance with sizes <= 64 bytes: "
                    "not replayable\"); }\n" % str(model).replace('"', "'"))
        a_, b_, l_, c_ = small["file_size_bytes"], small["remaining_bytes"], small["max_file_size_bytes"], small["file_ts_cmp"]
        # cmp(file.file_ts, file_ts): 0 = second batch in the same period; -1 = the clock moved on to the next minute; +1 = the clock
        # stepped BACK into the previous minute (the active file then carries a later period than the reading at write time)
        step = {0: 1, -1: 60, 1: -60}[c_]
        return ("use emit_file::__m2s_cfg as v;\n\nfn main() {\n"
                "    // C11: events go to the file named with the period of the clock reading at write time; a new file is started whenever the period\n"
                "    // changes or the batch would take the current file past the size limit (and otherwise not), without panicking.\n"
                "    // limit %d bytes; a fresh file takes its first batch of %d bytes whatever its size; then a batch of %d bytes after the clock moved by %d s\n"
                "    let r = v::run_sized_step(%d, &[%d, %d], %d);\n    println!(\"{:?}\", r);\n"
                "    assert_eq!(r[0], \"true 1\", \"first batch\");\n"
                "    assert!(r.len() == 2 && r[1] != \"PANIC\", \"on_batch panicked on the second batch (file size %d, batch %d, limit %d)\");\n"
                "    let must_roll = %d + %d > %d || %d != 0;\n"
                "    assert_eq!(r[1], if must_roll { \"true 2\" } else { \"true 1\" }, \"file size %d + batch %d vs limit %d, period comparison %d: expected {}\", if must_roll { \"a new file\" } else { \"the same file\" });\n}\n"
                % (l_, a_, b_, step, l_, a_, b_, step, a_, b_, l_, a_, b_, l_, c_, a_, b_, l_, c_))

    return Obligation("K3_r2_keep_active_file_test", enc, [FN + "::{closure: file.filter}"],
                      "engine E2 on the MIR of the `file.filter(|file| ..)` closure: ALL usize values of (file_size_bytes, remaining_bytes, "
                      "max_file_size_bytes) with file_size_bytes + remaining_bytes <= usize::MAX (the property's own sum must be representable), "
                      "the String comparison between file.file_ts and file_ts a predicate over a free C = cmp(..) in {-1, 0, 1}: no panic, result <=> "
                      "(size + remaining <= max) && C == 0 (same period); a counterexample with C != 0 is replayed with the clock moved one minute "
                      "forwards / backwards between two batches through the real Worker",
                      q, replay, crate="emitter/file", default_features=True, append=[(FILE, WRAPPER)])
