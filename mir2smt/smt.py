"""SMT-LIB2 term construction (with constant folding) and solver driving (cvc5 / z3 binaries)."""
import os
import re
import signal
import subprocess
import threading
import time

INT_TYPES = {}
for _b in (8, 16, 32, 64, 128):
    INT_TYPES["i%d" % _b] = (True, _b)
    INT_TYPES["u%d" % _b] = (False, _b)
INT_TYPES["isize"] = (True, 64)
INT_TYPES["usize"] = (False, 64)


def ty_range(ty):
    signed, bits = INT_TYPES[ty]
    if signed:
        return -(1 << (bits - 1)), (1 << (bits - 1)) - 1
    return 0, (1 << bits) - 1


def lit(v):
    if isinstance(v, bool):
        return "true" if v else "false"
    if isinstance(v, int):
        return str(v) if v >= 0 else "(- %d)" % (-v)
    return v


def is_const(t):
    return isinstance(t, (int, bool))


# ---- boolean terms (python bool = constant)

def b_not(a):
    if isinstance(a, bool):
        return not a
    if a.startswith("(not ") and a.endswith(")") and _balanced(a[5:-1]):
        return a[5:-1]
    return "(not %s)" % a


def _balanced(s):
    d = 0
    for c in s:
        if c == "(":
            d += 1
        elif c == ")":
            d -= 1
            if d < 0:
                return False
    return d == 0


def b_and(*xs):
    out = []
    for x in xs:
        if x is False:
            return False
        if x is True or x in out:
            continue
        out.append(x)
    if not out:
        return True
    if len(out) == 1:
        return out[0]
    return "(and %s)" % " ".join(out)


def b_or(*xs):
    out = []
    for x in xs:
        if x is True:
            return True
        if x is False or x in out:
            continue
        out.append(x)
    if not out:
        return False
    if len(out) == 1:
        return out[0]
    return "(or %s)" % " ".join(out)


def b_implies(a, b):
    return b_or(b_not(a), b)


def b_eq(a, b):
    if isinstance(a, bool) and isinstance(b, bool):
        return a == b
    if a is True:
        return b
    if b is True:
        return a
    if a is False:
        return b_not(b)
    if b is False:
        return b_not(a)
    if a == b:
        return True
    return "(= %s %s)" % (a, b)


def b_xor(a, b):
    return b_not(b_eq(a, b))


# ---- integer terms (python int = constant)

def i_add(a, b):
    if isinstance(a, int) and isinstance(b, int):
        return a + b
    if a == 0:
        return b
    if b == 0:
        return a
    return "(+ %s %s)" % (lit(a), lit(b))


def i_sub(a, b):
    if isinstance(a, int) and isinstance(b, int):
        return a - b
    if b == 0:
        return a
    return "(- %s %s)" % (lit(a), lit(b))


def i_neg(a):
    if isinstance(a, int):
        return -a
    return "(- %s)" % a


def i_mul(a, b):
    if isinstance(a, int) and isinstance(b, int):
        return a * b
    if a == 0 or b == 0:
        return 0
    if a == 1:
        return b
    if b == 1:
        return a
    return "(* %s %s)" % (lit(a), lit(b))


def _cmp(op, pyop, a, b):
    if isinstance(a, int) and isinstance(b, int):
        return pyop(a, b)
    return "(%s %s %s)" % (op, lit(a), lit(b))


def i_le(a, b):
    return _cmp("<=", lambda x, y: x <= y, a, b)


def i_lt(a, b):
    return _cmp("<", lambda x, y: x < y, a, b)


def i_ge(a, b):
    return _cmp(">=", lambda x, y: x >= y, a, b)


def i_gt(a, b):
    return _cmp(">", lambda x, y: x > y, a, b)


def i_eq(a, b):
    if isinstance(a, int) and isinstance(b, int):
        return a == b
    if a == b:
        return True
    return "(= %s %s)" % (lit(a), lit(b))


def i_ne(a, b):
    return b_not(i_eq(a, b))


def ite(c, a, b):
    if c is True:
        return a
    if c is False:
        return b
    if a == b and type(a) == type(b):
        return a
    if isinstance(a, bool) and isinstance(b, bool):
        return c if a else b_not(c)
    return "(ite %s %s %s)" % (c, lit(a), lit(b))


def in_range(t, lo, hi):
    return b_and(i_le(lo, t), i_le(t, hi))


# ---------------------------------------------------------------- script

class Script:
    """Accumulates declarations / definitions / lemma assertions shared by all queries of one encoding."""

    def __init__(self):
        self.lines = []
        self.n = 0
        self.nonlinear = False
        self.divcache = {}
        self.n_divlemmas = 0

    def fresh(self, pre):
        self.n += 1
        return "%s_%d" % (pre, self.n)

    def declare_int(self, pre, lo=None, hi=None):
        name = self.fresh(pre)
        self.lines.append("(declare-fun %s () Int)" % name)
        if lo is not None:
            self.lines.append("(assert (<= %s %s))" % (lit(lo), name))
        if hi is not None:
            self.lines.append("(assert (<= %s %s))" % (name, lit(hi)))
        return name

    def declare_bool(self, pre):
        name = self.fresh(pre)
        self.lines.append("(declare-fun %s () Bool)" % name)
        return name

    def define_int(self, pre, term):
        if isinstance(term, int) or _atomic(term):
            return term
        name = self.fresh(pre)
        self.lines.append("(define-fun %s () Int %s)" % (name, term))
        return name

    def define_bool(self, pre, term):
        if isinstance(term, bool) or _atomic(term):
            return term
        name = self.fresh(pre)
        self.lines.append("(define-fun %s () Bool %s)" % (name, term))
        return name

    def lemma(self, term):
        if term is True:
            return
        self.lines.append("(assert %s)" % lit(term))

    def comment(self, text):
        self.lines.append("; " + text.replace("\n", " "))

    # floor division by a positive constant through fresh q, r and the division lemma
    def floor_divmod(self, a, d):
        assert isinstance(d, int) and d > 0
        if isinstance(a, int):
            return a // d, a % d
        key = (a, d)
        if key in self.divcache:
            return self.divcache[key]
        q = self.fresh("q")
        r = self.fresh("r")
        # rendered per dialect: fresh q, r + division lemma ("lemma", what cvc5 gets) or SMT-LIB div / mod ("divmod", what z3 gets)
        self.lines.append(("div", lit(a), d, q, r))
        self.n_divlemmas += 1
        self.divcache[key] = (q, r)
        return q, r

    def logic(self):
        return "QF_NIA" if self.nonlinear else "QF_LIA"

    def render(self, extra_lines, logic=None, dialect="lemma"):
        out = ["(set-logic %s)" % (logic or self.logic())]
        for ln in self.lines:
            if isinstance(ln, tuple):
                _, a, d, q, r = ln
                if dialect == "divmod":
                    out.append("(define-fun %s () Int (div %s %d))" % (q, a, d))
                    out.append("(define-fun %s () Int (mod %s %d))" % (r, a, d))
                else:
                    out.append("(declare-fun %s () Int)" % q)
                    out.append("(declare-fun %s () Int)" % r)
                    out.append("(assert (and (= %s (+ (* %d %s) %s)) (<= 0 %s) (< %s %d)))" % (a, d, q, r, r, r, d))
            else:
                out.append(ln)
        return "\n".join(out + list(extra_lines)) + "\n"


def _atomic(t):
    return isinstance(t, str) and not t.startswith("(")


# ---------------------------------------------------------------- solvers

SOLVERS = {
    "cvc5": {"bin": "/usr/bin/cvc5", "args": ["--lang", "smt2", "--dump-models"]},
    "z3": {"bin": "/usr/bin/z3", "args": ["dump_models=true"]},
    "z3-new": {"bin": "/usr/local/bin/z3-new", "args": ["dump_models=true"]},
}
_versions = {}


def solver_version(name):
    if name in _versions:
        return _versions[name]
    s = SOLVERS[name]
    try:
        out = subprocess.run([s["bin"], "--version"], capture_output=True, text=True, timeout=20).stdout
    except Exception:
        out = ""
    v = "?"
    m = re.search(r"version (\d+(?:\.\d+)+)", out)
    if m:
        v = m.group(1)
    # reported the way the framework documents them
    if name == "cvc5":
        v = ".".join(v.split(".")[:2])
        _versions[name] = "cvc5 %s" % v
    else:
        _versions[name] = "z3 %s" % v
    return _versions[name]


def have(name):
    return os.path.exists(SOLVERS[name]["bin"])


def parse_sexprs(text):
    """Tiny s-expression reader -> nested lists of atoms."""
    toks = re.findall(r"\(|\)|\"(?:[^\"])*\"|[^\s()]+", text)
    pos = 0

    def rd():
        nonlocal pos
        t = toks[pos]
        pos += 1
        if t == "(":
            lst = []
            while toks[pos] != ")":
                lst.append(rd())
            pos += 1
            return lst
        return t

    out = []
    while pos < len(toks):
        if toks[pos] == ")":
            pos += 1
            continue
        out.append(rd())
    return out


def _eval_const(e):
    if isinstance(e, str):
        if e == "true":
            return True
        if e == "false":
            return False
        if re.fullmatch(r"-?\d+", e):
            return int(e)
        return None
    if len(e) == 2 and e[0] == "-":
        v = _eval_const(e[1])
        return -v if isinstance(v, int) else None
    return None


def parse_model(text):
    """Values of all nullary define-funs with a literal body in a dumped model."""
    model = {}
    i = text.find("(")
    if i < 0:
        return model
    try:
        for top in parse_sexprs(text[i:]):
            items = top if isinstance(top, list) else []
            if items and items[0] == "model":
                items = items[1:]
            for it in items:
                if isinstance(it, list) and len(it) == 5 and it[0] == "define-fun" and it[2] == []:
                    v = _eval_const(it[4])
                    if v is not None:
                        model[it[1]] = v
    except (IndexError, ValueError):
        pass
    return model


class Answer:
    def __init__(self, solver, status, wall, model=None, raw="", path=None):
        self.solver, self.status, self.wall, self.model, self.raw, self.path = solver, status, wall, model or {}, raw, path

    def __repr__(self):
        return "<%s %s %.1fs>" % (self.solver, self.status, self.wall)


_SLOTS = [threading.BoundedSemaphore(4)]


def set_parallelism(n):
    """Upper bound on concurrently running solver processes (whatever thread pools the callers use)."""
    _SLOTS[0] = threading.BoundedSemaphore(max(1, int(n)))


def run_solver(name, path, timeout, mem_gb=6, extra_args=(), on_start=None, label=None, skip_if=None):
    """Run one solver binary on one file. status in sat|unsat|unknown|timeout|error|killed."""
    sem = _SLOTS[0]
    with sem:
        if skip_if is not None and skip_if():
            return Answer(label or name, "killed", 0.0, raw="", path=path)
        return _run_solver(name, path, timeout, mem_gb, extra_args, on_start, label)


def _run_solver(name, path, timeout, mem_gb=6, extra_args=(), on_start=None, label=None):
    s = SOLVERS[name]
    cmd = [s["bin"]] + s["args"] + list(extra_args)
    if name == "cvc5":
        cmd += ["--tlimit=%d" % int(timeout * 1000)]
    else:
        cmd += ["-T:%d" % int(timeout)]
    cmd.append(path)
    label = label or name

    def lim():
        import resource
        b = int(mem_gb * (1 << 30))
        resource.setrlimit(resource.RLIMIT_AS, (b, b))
        os.setsid()

    t0 = time.time()
    try:
        p = subprocess.Popen(cmd, stdout=subprocess.PIPE, stderr=subprocess.STDOUT, text=True, preexec_fn=lim)
    except OSError as e:
        return Answer(label, "error", 0.0, raw=str(e), path=path)
    if on_start:
        on_start(p)
    try:
        out, _ = p.communicate(timeout=timeout + 15)
    except subprocess.TimeoutExpired:
        kill_proc(p)
        out, _ = p.communicate()
        return Answer(label, "timeout", time.time() - t0, raw=(out or "")[-2000:], path=path)
    wall = time.time() - t0
    if getattr(p, "killed_by_us", False):
        return Answer(label, "killed", wall, raw="", path=path)
    if "(error" in out or "Error" in out.split("\n", 1)[0]:
        # cvc5 prints "cvc5 interrupted by timeout." / z3 prints "timeout" for the limits above
        if re.search(r"interrupted by timeout|^timeout", out, re.M) and "(error" not in out:
            return Answer(label, "timeout", wall, raw=out[-2000:], path=path)
        return Answer(label, "error", wall, raw=out[-2000:], path=path)
    first = ""
    for ln in out.split("\n"):
        ln = ln.strip()
        if ln:
            first = ln
            break
    if first == "unsat":
        return Answer(label, "unsat", wall, raw=out[-500:], path=path)
    if first == "sat":
        return Answer(label, "sat", wall, model=parse_model(out[out.index("sat") + 3:]), raw=out[-4000:], path=path)
    if first == "unknown":
        return Answer(label, "unknown", wall, raw=out[-2000:], path=path)
    if re.search(r"interrupted by timeout|^timeout", out, re.M) or p.returncode in (-9, -14, 137):
        return Answer(label, "timeout", wall, raw=out[-2000:], path=path)
    return Answer(label, "error", wall, raw=out[-2000:] or "no output (rc=%s)" % p.returncode, path=path)


def kill_proc(p):
    p.killed_by_us = True
    try:
        os.killpg(p.pid, signal.SIGKILL)
    except OSError:
        try:
            p.kill()
        except OSError:
            pass
