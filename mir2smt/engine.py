"""Engine glue: scratch tree -> MIR dump -> encodings -> solver queries -> verdicts / replay.

Nothing is cached between runs: the tree copy, the MIR dump, the native validation crate and every
.smt2 file live under the scratch directory handed in by the caller."""
import concurrent.futures
import os
import re
import shutil
import subprocess
import time

from . import Unsupported, smt

CARGO_ENV = {
    "CARGO_NET_OFFLINE": "true",
    "CARGO_TERM_COLOR": "never",
    "RUSTFLAGS": "",
}


class EngineError(Exception):
    """Tool failure (cargo, rustc, solver missing...). Always inconclusive."""


def _env(target):
    e = dict(os.environ)
    e.update(CARGO_ENV)
    e.pop("RUSTC_WRAPPER", None)
    e["CARGO_TARGET_DIR"] = target
    return e


def prepare_tree(workdir):
    """Fresh copy of the repository working tree (vlib.tree.copy_repo) plus its Cargo.lock."""
    from vlib import tree as vtree
    os.makedirs(workdir, exist_ok=True)
    t = vtree.copy_repo(workdir)
    lock = os.path.join(vtree.REPO, "Cargo.lock")
    if os.path.exists(lock):
        shutil.copy(lock, os.path.join(t, "Cargo.lock"))
    return t


def dump_mir(tree, crate_dir, target, default_features=False, timeout=600, log=None):
    cmd = ["cargo", "+nightly", "rustc", "--offline", "--lib"]
    if not default_features:
        cmd.append("--no-default-features")
    cmd += ["--", "-Zunpretty=mir", "-C", "debug-assertions=off", "-C", "overflow-checks=on"]
    t0 = time.time()
    try:
        r = subprocess.run(cmd, cwd=os.path.join(tree, crate_dir), env=_env(target), capture_output=True, text=True,
                           timeout=timeout)
    except subprocess.TimeoutExpired:
        raise EngineError("MIR dump of %s timed out" % crate_dir)
    if log:
        with open(log, "w") as f:
            f.write(r.stderr[-20000:])
    if r.returncode != 0 or "bb0: {" not in r.stdout:
        raise EngineError("MIR dump of %s failed (rc=%d): %s" % (crate_dir, r.returncode, r.stderr[-600:]))
    return r.stdout, time.time() - t0


def package_name(tree, crate_dir):
    txt = open(os.path.join(tree, crate_dir, "Cargo.toml"), encoding="utf-8").read()
    m = re.search(r'^\s*name\s*=\s*"([^"]+)"', txt, re.M)
    if not m:
        raise EngineError("no package name in %s/Cargo.toml" % crate_dir)
    return m.group(1)


class NativeCrate:
    """A tiny binary crate with path dependencies on crates of the scratch tree. Used for translator
    validation (prints outputs of the real functions) and for replaying models."""

    def __init__(self, root, tree, deps, name="m2s_native"):
        """deps: [(crate dir relative to the tree root, [features], default_features: bool)]"""
        self.root, self.tree, self.name = root, tree, name
        self.target = os.path.join(os.path.dirname(root), "t-native")
        os.makedirs(os.path.join(root, "src"), exist_ok=True)
        rel = os.path.relpath(tree, root)
        toml = ['[package]', 'name = "%s"' % name, 'version = "0.0.0"', 'edition = "2021"', '', '[workspace]', '']
        for d, feats, deff in deps:
            toml += ['[dependencies.%s]' % package_name(tree, d), 'path = "%s/%s"' % (rel, d),
                     'default-features = %s' % ("true" if deff else "false"),
                     'features = [%s]' % ", ".join('"%s"' % f for f in feats), '']
        toml += ['[profile.dev]', 'debug = false', 'overflow-checks = true', 'debug-assertions = true', '']
        with open(os.path.join(root, "Cargo.toml"), "w") as f:
            f.write("\n".join(toml))
        lock = os.path.join(tree, "Cargo.lock")
        if os.path.exists(lock):
            shutil.copy(lock, os.path.join(root, "Cargo.lock"))

    def run(self, main_rs, timeout=600):
        """-> (rc, stdout, stderr) ; rc None when the build failed."""
        with open(os.path.join(self.root, "src", "main.rs"), "w") as f:
            f.write(main_rs)
        env = _env(self.target)
        try:
            b = subprocess.run(["cargo", "+nightly", "build", "--offline", "--quiet"], cwd=self.root, env=env,
                               capture_output=True, text=True, timeout=timeout)
        except subprocess.TimeoutExpired:
            return None, "", "native build timed out"
        if b.returncode != 0:
            return None, "", "native build failed: " + b.stderr[-1500:]
        exe = os.path.join(self.target, "debug", self.name)
        try:
            r = subprocess.run([exe], capture_output=True, text=True, timeout=120)
        except subprocess.TimeoutExpired:
            return None, "", "native run timed out"
        return r.returncode, r.stdout, r.stderr


# ---------------------------------------------------------------- encodings and queries

class Encoding:
    """One symbolic execution: a Script plus named inputs / outputs / panic obligations."""

    def __init__(self, name, ex):
        self.name = name
        self.ex = ex
        self.S = ex.S
        self.inputs = []      # [(label, term)]
        self.outputs = []     # [(label, term)]
        self.ret_guard = True
        self.error = None     # Unsupported text if the encoding could not be produced

    def panics(self, tag=None, kinds=None):
        return [p for p in self.ex.panics if (tag is None or p.tag == tag) and (kinds is None or p.kind in kinds)]


class Query:
    def __init__(self, name, enc, asserts, fast_z3=False, expect="unsat"):
        self.name, self.enc, self.asserts, self.fast_z3, self.expect = name, enc, asserts, fast_z3, expect
        self.answers = {}

    def text(self):
        lines = []
        for a in self.asserts:
            if a is True:
                continue
            lines.append("(assert %s)" % smt.lit(a))
        lines.append("(check-sat)")
        return self.enc.S.render(lines)


# cvc5 configurations raced on every query (all are the same solver; measured in README.md: the default
# configuration needs 20 s .. 13 min on the round-trip query depending on incidental options, `--no-arith-brab`
# 11..21 s). The first definite answer wins, the others are killed / never started.
CVC5_PORTFOLIO = [("cvc5[no-arith-brab]", ["--no-arith-brab"]), ("cvc5[default]", []), ("cvc5[use-soi]", ["--use-soi"])]


def run_queries(queries, workdir, tier, jobs=4, cvc5_cap=120, z3_cap_quick=60, thorough_cap=900, z3_cap_thorough=600, log=None):
    """Decide every query with cvc5 (portfolio); cross-check with z3 where asked (quick) or everywhere (thorough).
    Fills q.answers["cvc5"] and q.answers[<z3 name>]."""
    import threading
    os.makedirs(workdir, exist_ok=True)
    lock = threading.Lock()
    cap = cvc5_cap if tier == "quick" else thorough_cap
    stages = [[] for _ in range(len(CVC5_PORTFOLIO) + 1)]
    for q in queries:
        path = os.path.join(workdir, re.sub(r"[^A-Za-z0-9_.-]", "_", q.name) + ".smt2")
        with open(path, "w") as f:
            f.write(q.text())
        q.path = path
        q.procs = []
        q.tried = []
        q.decided = False
        for i, (label, args) in enumerate(CVC5_PORTFOLIO):
            stages[i if i == 0 else i + 1].append((q, "cvc5", label, args, cap))
        if tier == "quick":
            if q.fast_z3 and smt.have("z3"):
                stages[1].append((q, "z3", "z3", [], z3_cap_quick))
        else:
            for z in ("z3", "z3-new"):
                if smt.have(z):
                    stages[1].append((q, z, z, [], z3_cap_thorough))
    tasks = []
    for st in stages:
        st.sort(key=lambda t: -os.path.getsize(t[0].path))
        tasks += st

    def work(t):
        q, solver, label, args, tcap = t
        if solver == "cvc5":
            with lock:
                if q.decided:
                    return
        a = smt.run_solver(solver, q.path, tcap, extra_args=args, label=label,
                           on_start=(lambda p: q.procs.append(p)) if solver == "cvc5" else None)
        if solver != "cvc5":
            q.answers[solver] = a
        else:
            with lock:
                if a.status == "killed":
                    return
                q.tried.append(a)
                if a.status in ("sat", "unsat") and not q.decided:
                    q.decided = True
                    q.answers["cvc5"] = a
                    for p in q.procs:
                        if p.poll() is None:
                            smt.kill_proc(p)
        if log:
            log("    %-38s %-20s %-8s %6.1fs" % (q.name, label, a.status, a.wall))

    with concurrent.futures.ThreadPoolExecutor(max_workers=max(1, jobs)) as pool:
        list(pool.map(work, tasks))
    for q in queries:
        if "cvc5" not in q.answers and q.tried:
            # no configuration gave a definite answer: error dominates, then unknown, then timeout
            order = {"error": 0, "unknown": 1, "timeout": 2}
            q.answers["cvc5"] = sorted(q.tried, key=lambda a: order.get(a.status, 3))[0]
        elif any(a.status == "error" for a in q.tried):
            q.answers["cvc5"] = [a for a in q.tried if a.status == "error"][0]
        q.cvc5_wall = sum(a.wall for a in q.tried)


def verdict(queries):
    """Combine the answers of the queries of one obligation.
    -> (status, cross_check text, solver seconds, sat query | None, reasons)"""
    status, reasons, sat_q = "holds", [], None
    cross = []
    secs = 0.0
    for q in queries:
        a = q.answers.get("cvc5")
        secs += getattr(q, "cvc5_wall", 0.0) + sum(x.wall for n, x in q.answers.items() if n != "cvc5")
        if a is None:
            status = "inconclusive"
            reasons.append("%s: not run" % q.name)
            continue
        if a.status == "sat":
            if sat_q is None:
                sat_q = q
        elif a.status != "unsat":
            status = "inconclusive"
            reasons.append("%s: cvc5 %s %s" % (q.name, a.status, a.raw.strip()[-200:] if a.status == "error" else ""))
        zs = [(n, x) for n, x in q.answers.items() if n != "cvc5"]
        if not zs:
            cross.append("skipped(quick tier)")
        else:
            definite = [(n, x) for n, x in zs if x.status in ("sat", "unsat")]
            if any(x.status == "error" for _, x in zs):
                status = "inconclusive"
                reasons.append("%s: %s error" % (q.name, [n for n, x in zs if x.status == "error"][0]))
                cross.append("error")
            elif not definite:
                cross.append("skipped(timeout)")
            elif all(x.status == a.status for _, x in definite):
                cross.append("agree")
            else:
                cross.append("DISAGREE")
                status = "inconclusive"
                reasons.append("%s: cvc5 says %s, %s" % (q.name, a.status, ", ".join("%s says %s" % (n, x.status) for n, x in definite)))
    if sat_q is not None and status == "holds":
        status = "sat"
    elif sat_q is not None:
        status = "inconclusive"
    if any(c == "DISAGREE" for c in cross):
        ctext = "DISAGREE"
    elif cross and all(c == "agree" for c in cross):
        ctext = "agree"
    elif any(c == "agree" for c in cross):
        ctext = "agree on %d/%d queries, rest %s" % (sum(1 for c in cross if c == "agree"), len(cross),
                                                     sorted(set(c for c in cross if c != "agree"))[0])
    elif cross:
        ctext = sorted(set(cross))[0]
    else:
        ctext = "skipped"
    zname = smt.solver_version("z3") if smt.have("z3") else "z3"
    return status, "%s: %s" % (zname, ctext), round(secs, 1), sat_q, reasons


# ---------------------------------------------------------------- translator validation

def validate(enc, vectors, workdir, timeout=120):
    """vectors: [(label, {input label: int}, expected)], expected = {"panic": bool, "out": {label: int|bool}}
    (outputs are compared only when the native run did not panic and `expected['out']` has the label).
    One incremental cvc5 run, inputs pinned per vector, (get-value) on ret guard / panic flag / outputs.
    -> (ok, n_checked, mismatches[list of str], seconds)"""
    S = enc.S
    os.makedirs(workdir, exist_ok=True)
    pan = [p.guard for p in enc.ex.panics]
    any_panic = smt.b_or(*pan) if pan else False
    lines = []
    lines.append("(define-fun v_any_panic () Bool %s)" % smt.lit(any_panic))
    lines.append("(define-fun v_ret () Bool %s)" % smt.lit(enc.ret_guard))
    outs = [(lab, t) for lab, t in enc.outputs]
    for lab, vals, exp in vectors:
        lines.append("(push 1)")
        for ilab, term in enc.inputs:
            if ilab not in vals:
                raise EngineError("validation vector %s lacks input %s" % (lab, ilab))
            lines.append("(assert (= %s %s))" % (term, smt.lit(vals[ilab])))
        lines.append("(check-sat)")
        lines.append("(get-value (v_any_panic v_ret %s))" % " ".join(smt.lit(t) for _, t in outs))
        lines.append("(pop 1)")
    path = os.path.join(workdir, "validate_%s.smt2" % enc.name)
    with open(path, "w") as f:
        f.write(S.render(lines))
    t0 = time.time()
    try:
        r = subprocess.run([smt.SOLVERS["cvc5"]["bin"], "--lang", "smt2", "--incremental", "--produce-models", "--tlimit=%d" % (timeout * 1000), path],
                           capture_output=True, text=True, timeout=timeout + 20)
        out = r.stdout + r.stderr
    except subprocess.TimeoutExpired:
        return False, 0, ["validation run timed out"], time.time() - t0
    secs = time.time() - t0
    if "(error" in out:
        return False, 0, ["solver error during validation: " + out[out.index("(error"):][:300]], secs
    try:
        items = smt.parse_sexprs(out)
    except Exception as e:
        return False, 0, ["unparsable validation output: %s" % e], secs
    mism, n = [], 0
    pos = 0
    for lab, vals, exp in vectors:
        if pos + 1 >= len(items) + 0 and pos >= len(items):
            mism.append("%s: no answer" % lab)
            break
        if items[pos] != "sat":
            mism.append("%s: pinned inputs are %s in the encoding" % (lab, items[pos]))
            pos += 1
            continue
        vals_out = items[pos + 1]
        pos += 2
        got = [smt._eval_const(v[1]) for v in vals_out]
        g_panic, g_ret = got[0], got[1]
        n += 1
        if bool(exp["panic"]) != bool(g_panic):
            mism.append("%s: native %s, encoding %s" % (lab, "panics" if exp["panic"] else "returns",
                                                         "panics" if g_panic else "returns"))
            continue
        if exp["panic"]:
            continue
        if g_ret is not True:
            mism.append("%s: encoding does not reach the return for these inputs" % lab)
            continue
        for (olab, _), gv in zip(outs, got[2:]):
            if olab in exp["out"] and exp["out"][olab] != gv:
                mism.append("%s: output %s native=%s encoding=%s" % (lab, olab, exp["out"][olab], gv))
    return (not mism and n == len(vectors)), n, mism, secs
