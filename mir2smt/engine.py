"""Engine glue: scratch tree -> MIR dump -> encodings -> solver queries -> verdicts / replay.

Nothing is cached between runs: the tree copy, the MIR dump, the native validation crate and every
.smt2 file live under the scratch directory handed in by the caller."""
import concurrent.futures
import os
import re
import shutil
import subprocess
import time

from . import Unsupported, smt

CARGO_ENV = {
    "CARGO_NET_OFFLINE": "true",
    "CARGO_TERM_COLOR": "never",
    "RUSTFLAGS": "",
}


class EngineError(Exception):
    """Tool failure (cargo, rustc, solver missing...). Always inconclusive."""


def _env(target):
    e = dict(os.environ)
    e.update(CARGO_ENV)
    e.pop("RUSTC_WRAPPER", None)
    e["CARGO_TARGET_DIR"] = target
    return e


def prepare_tree(workdir):
    """Fresh copy of the repository working tree (vlib.tree.copy_repo) plus its Cargo.lock."""
    from vlib import tree as vtree
    os.makedirs(workdir, exist_ok=True)
    t = vtree.copy_repo(workdir)
    lock = os.path.join(vtree.REPO, "Cargo.lock")
    if os.path.exists(lock):
        shutil.copy(lock, os.path.join(t, "Cargo.lock"))
    return t


def dump_mir(tree, crate_dir, target, default_features=False, timeout=600, log=None, features=()):
    cmd = ["cargo", "+nightly", "rustc", "--offline", "--lib"]
    if not default_features:
        cmd.append("--no-default-features")
    if features:
        cmd += ["--features", ",".join(features)]
    cmd += ["--", "-Zunpretty=mir", "-C", "debug-assertions=off", "-C", "overflow-checks=on"]
    t0 = time.time()
    try:
        r = subprocess.run(cmd, cwd=os.path.join(tree, crate_dir), env=_env(target), capture_output=True, text=True,
                           timeout=timeout)
    except subprocess.TimeoutExpired:
        raise EngineError("MIR dump of %s timed out" % crate_dir)
    if log:
        with open(log, "w") as f:
            f.write(r.stderr[-20000:])
    if r.returncode != 0 or "bb0: {" not in r.stdout:
        raise EngineError("MIR dump of %s failed (rc=%d): %s" % (crate_dir, r.returncode, r.stderr[-600:]))
    return r.stdout, time.time() - t0


def package_name(tree, crate_dir):
    txt = open(os.path.join(tree, crate_dir, "Cargo.toml"), encoding="utf-8").read()
    m = re.search(r'^\s*name\s*=\s*"([^"]+)"', txt, re.M)
    if not m:
        raise EngineError("no package name in %s/Cargo.toml" % crate_dir)
    return m.group(1)


class NativeCrate:
    """A tiny binary crate with path dependencies on crates of the scratch tree. Used for translator
    validation (prints outputs of the real functions) and for replaying models."""

    def __init__(self, root, tree, deps, name="m2s_native"):
        """deps: [(crate dir relative to the tree root, [features], default_features: bool)]"""
        self.root, self.tree, self.name = root, tree, name
        self.target = os.path.join(os.path.dirname(root), "t-native")
        os.makedirs(os.path.join(root, "src"), exist_ok=True)
        rel = os.path.relpath(tree, root)
        toml = ['[package]', 'name = "%s"' % name, 'version = "0.0.0"', 'edition = "2021"', '', '[workspace]', '']
        for d, feats, deff in deps:
            toml += ['[dependencies.%s]' % package_name(tree, d), 'path = "%s/%s"' % (rel, d),
                     'default-features = %s' % ("true" if deff else "false"),
                     'features = [%s]' % ", ".join('"%s"' % f for f in feats), '']
        toml += ['[profile.dev]', 'debug = false', 'overflow-checks = true', 'debug-assertions = true', '']
        with open(os.path.join(root, "Cargo.toml"), "w") as f:
            f.write("\n".join(toml))
        lock = os.path.join(tree, "Cargo.lock")
        if os.path.exists(lock):
            shutil.copy(lock, os.path.join(root, "Cargo.lock"))

    def run(self, main_rs, timeout=600):
        """-> (rc, stdout, stderr) ; rc None when the build failed."""
        with open(os.path.join(self.root, "src", "main.rs"), "w") as f:
            f.write(main_rs)
        env = _env(self.target)
        try:
            b = subprocess.run(["cargo", "+nightly", "build", "--offline", "--quiet"], cwd=self.root, env=env,
                               capture_output=True, text=True, timeout=timeout)
        except subprocess.TimeoutExpired:
            return None, "", "native build timed out"
        if b.returncode != 0:
            return None, "", "native build failed: " + b.stderr[-1500:]
        exe = os.path.join(self.target, "debug", self.name)
        try:
            r = subprocess.run([exe], capture_output=True, text=True, timeout=120)
        except subprocess.TimeoutExpired:
            return None, "", "native run timed out"
        return r.returncode, r.stdout, r.stderr


# ---------------------------------------------------------------- encodings and queries

class Encoding:
    """One symbolic execution: a Script plus named inputs / outputs / panic obligations."""

    def __init__(self, name, ex):
        self.name = name
        self.ex = ex
        self.S = ex.S
        self.inputs = []      # [(label, term)]
        self.outputs = []     # [(label, term)]
        self.ret_guard = True
        self.error = None     # Unsupported text if the encoding could not be produced

    def panics(self, tag=None, kinds=None):
        return [p for p in self.ex.panics if (tag is None or p.tag == tag) and (kinds is None or p.kind in kinds)]


class Query:
    def __init__(self, name, enc, asserts, fast_z3=False, expect="unsat", z3_chunks=None):
        self.name, self.enc, self.asserts, self.fast_z3, self.expect = name, enc, asserts, fast_z3, expect
        # thorough tier only: a partition of the input range [(label, extra assertion)]; z3 re-decides the query chunk by
        # chunk (unsat on every chunk = unsat) where it cannot do the whole range within its cap
        self.z3_chunks = z3_chunks
        self.answers = {}

    def text(self, dialect="lemma", extra=()):
        lines = []
        for a in list(self.asserts) + list(extra):
            if a is True:
                continue
            lines.append("(assert %s)" % smt.lit(a))
        lines.append("(check-sat)")
        return self.enc.S.render(lines, dialect=dialect)


# cvc5 configurations raced on every query (all are the same solver; measured in README.md: the default
# configuration needs 20 s .. 13 min on the round-trip query depending on incidental options, `--no-arith-brab`
# 11..28 s). The first definite answer wins, the others are killed / never started.
CVC5_PORTFOLIO = [("cvc5[no-arith-brab]", ["--no-arith-brab"]), ("cvc5[default]", []), ("cvc5[use-soi]", ["--use-soi"])]
# z3 re-decides a query either in the same rendering ("lemma": fresh q, r + division lemma) or with SMT-LIB div / mod
# ("divmod"); which one finishes differs per query and per z3 version, so the thorough tier races all four.
Z3_QUICK = [("z3[lemma]", "z3", "lemma")]
Z3_THOROUGH = [("z3-new[divmod]", "z3-new", "divmod"), ("z3[lemma]", "z3", "lemma"),
               ("z3-new[lemma]", "z3-new", "lemma"), ("z3[divmod]", "z3", "divmod")]


class _Race:
    """Variants of one solver family on one query: first definite answer wins."""

    def __init__(self):
        self.procs, self.tried, self.decided, self.answer = [], [], False, None


def run_queries(queries, workdir, tier, jobs=4, cvc5_cap=120, z3_cap_quick=60, thorough_cap=900, z3_cap_thorough=900,
                z3_chunk_cap=400, log=None):
    """Decide every query with cvc5 (portfolio); cross-check with z3 where asked (quick) or everywhere (thorough).
    Fills q.answers["cvc5"] and (if attempted) q.answers["z3"]."""
    import threading
    os.makedirs(workdir, exist_ok=True)
    lock = threading.Lock()
    cap = cvc5_cap if tier == "quick" else thorough_cap
    n_stage = max(len(CVC5_PORTFOLIO), len(Z3_THOROUGH)) + 1
    stages = [[] for _ in range(n_stage + 1)]
    for q in queries:
        base = os.path.join(workdir, re.sub(r"[^A-Za-z0-9_.-]", "_", q.name))
        q.paths = {"lemma": base + ".smt2", "divmod": base + ".divmod.smt2"}
        for d, pth in q.paths.items():
            with open(pth, "w") as f:
                f.write(q.text(dialect=d))
        q.path = q.paths["lemma"]
        q.race = {"cvc5": _Race(), "z3": _Race(), "z3chunk": _Race()}
        for i, (label, args) in enumerate(CVC5_PORTFOLIO):
            stages[0 if i == 0 else i + 1].append((q, "cvc5", label, "cvc5", args, "lemma", cap))
        if tier == "quick":
            zs = Z3_QUICK if q.fast_z3 else []
            zcap = z3_cap_quick
        elif q.z3_chunks:
            zs = []
            zsolver = "z3-new" if smt.have("z3-new") else "z3"
            q.chunk_answers = []
            for k, (clabel, cassert) in enumerate(q.z3_chunks):
                cpath = "%s.chunk%03d.divmod.smt2" % (base, k)
                with open(cpath, "w") as f:
                    f.write(q.text(dialect="divmod", extra=[cassert]))
                q.paths["chunk%d" % k] = cpath
                stages[1].append((q, "z3chunk", "%s[divmod] %s" % (zsolver, clabel), zsolver, [], "chunk%d" % k, z3_chunk_cap))
        else:
            zs, zcap = Z3_THOROUGH, z3_cap_thorough
        for i, (label, solver, dialect) in enumerate(zs):
            if smt.have(solver):
                stages[1 if i == 0 else i + 1].append((q, "z3", label, solver, [], dialect, zcap))
    tasks = []
    for st in stages:
        st.sort(key=lambda t: -os.path.getsize(t[0].path))
        tasks += st

    def work(t):
        q, fam, label, solver, args, dialect, tcap = t
        race = q.race[fam]
        a = smt.run_solver(solver, q.paths[dialect], tcap, extra_args=args, label=label,
                           on_start=lambda p: race.procs.append(p), skip_if=lambda: race.decided)
        with lock:
            if a.status == "killed":
                return
            race.tried.append(a)
            if fam == "z3chunk":
                # every chunk has to come back unsat; anything else ends the chunked cross-check
                if a.status != "unsat":
                    race.decided = True
                    race.answer = a
                if log and (a.status != "unsat" or len(race.tried) % 10 == 0 or len(race.tried) == len(q.z3_chunks)):
                    log("    %-40s %-20s %-8s %6.1fs (%d/%d chunks done)" % (q.name, label[:20], a.status, a.wall,
                                                                             len(race.tried), len(q.z3_chunks)))
                return
            if a.status in ("sat", "unsat") and not race.decided:
                race.decided = True
                race.answer = a
                for p in race.procs:
                    if p.poll() is None:
                        smt.kill_proc(p)
        if log:
            log("    %-40s %-20s %-8s %6.1fs" % (q.name, label, a.status, a.wall))

    with concurrent.futures.ThreadPoolExecutor(max_workers=max(1, jobs)) as pool:
        list(pool.map(work, tasks))
    order = {"error": 0, "unknown": 1, "timeout": 2}
    for q in queries:
        for fam in ("cvc5", "z3"):
            race = q.race[fam]
            if not race.tried:
                continue
            errs = [a for a in race.tried if a.status == "error"]
            if errs:
                q.answers[fam] = errs[0]        # an "(error" line anywhere is inconclusive
            elif race.answer is not None:
                q.answers[fam] = race.answer
            else:
                q.answers[fam] = sorted(race.tried, key=lambda a: order.get(a.status, 3))[0]
        cr = q.race["z3chunk"]
        if cr.tried:
            wall = sum(a.wall for a in cr.tried)
            if cr.answer is not None:
                st = cr.answer.status if cr.answer.status in ("sat", "error") else "timeout"
                q.answers["z3"] = smt.Answer(cr.answer.solver, st, wall, model=cr.answer.model, raw=cr.answer.raw)
            elif len(cr.tried) == len(q.z3_chunks):
                q.answers["z3"] = smt.Answer(cr.tried[0].solver.split(" ")[0] + " in %d chunks" % len(cr.tried), "unsat", wall)
            else:
                q.answers["z3"] = smt.Answer(cr.tried[0].solver, "timeout", wall)
        q.cvc5_wall = sum(a.wall for a in q.race["cvc5"].tried)
        q.z3_wall = sum(a.wall for a in q.race["z3"].tried) + sum(a.wall for a in cr.tried)


def verdict(queries):
    """Combine the answers of the queries of one obligation.
    -> (status, cross_check text, solver seconds, sat query | None, reasons)"""
    status, reasons, sat_q = "holds", [], None
    cross = []
    secs = 0.0
    zused = set()
    for q in queries:
        a = q.answers.get("cvc5")
        secs += getattr(q, "cvc5_wall", 0.0) + getattr(q, "z3_wall", 0.0)
        if a is None:
            status = "inconclusive"
            reasons.append("%s: not run" % q.name)
            continue
        if a.status == "sat":
            if sat_q is None:
                sat_q = q
        elif a.status != "unsat":
            status = "inconclusive"
            reasons.append("%s: cvc5 %s %s" % (q.name, a.status, a.raw.strip()[-200:] if a.status == "error" else ""))
        z = q.answers.get("z3")
        if z is None:
            cross.append("not attempted")
        elif z.status == "error":
            status = "inconclusive"
            reasons.append("%s: %s error %s" % (q.name, z.solver, z.raw.strip()[-160:]))
            cross.append("error")
        elif z.status not in ("sat", "unsat"):
            cross.append("skipped(timeout)")
        elif z.status == a.status:
            cross.append("agree (z3 on %d range chunks)" % len(q.z3_chunks) if getattr(q, "chunk_answers", None) is not None else "agree")
            zused.add(z.solver)
        else:
            cross.append("DISAGREE")
            status = "inconclusive"
            reasons.append("%s: cvc5 says %s, %s says %s" % (q.name, a.status, z.solver, z.status))
    if sat_q is not None and status == "holds":
        status = "sat"
    elif sat_q is not None:
        status = "inconclusive"
    n = len(cross)
    if any(c == "DISAGREE" for c in cross):
        ctext = "DISAGREE"
    elif cross and all(c.startswith("agree") for c in cross):
        ctext = sorted(set(cross))[-1]
    elif any(c.startswith("agree") for c in cross):
        rest = sorted(set(c for c in cross if not c.startswith("agree")))
        ctext = "agree on %d/%d queries, rest %s" % (sum(1 for c in cross if c.startswith("agree")), n, "/".join(rest))
    elif cross and all(c == "not attempted" for c in cross):
        ctext = "skipped(quick tier: z3 is not known to be fast on this query)"
    elif cross:
        ctext = "/".join(sorted(set(cross)))
    else:
        ctext = "skipped"
    tried = set()
    for q in queries:
        for fam in ("z3", "z3chunk"):
            for a in getattr(q, "race", {}).get(fam, _Race()).tried:
                tried.add("z3-new" if a.solver.startswith("z3-new") else "z3")
    zname = "z3 " + "+".join(sorted(set(smt.solver_version(x).split()[1] for x in (tried or {"z3"}) if smt.have(x)))) 
    return status, "%s: %s" % (zname, ctext), round(secs, 1), sat_q, reasons


# ---------------------------------------------------------------- translator validation

def validate(enc, vectors, workdir, timeout=120, jobs=4):
    """vectors: [(label, {input label: int}, expected)], expected = {"panic": bool, "out": {label: int|bool}}
    (outputs are compared only when the native run did not panic and `expected['out']` has the label).
    One cvc5 run per vector (inputs pinned, outputs read from the dumped model), `jobs` at a time.
    -> (ok, n_checked, mismatches[list of str], seconds)"""
    S = enc.S
    os.makedirs(workdir, exist_ok=True)
    pan = [p.guard for p in enc.ex.panics]
    any_panic = smt.b_or(*pan) if pan else False
    outs = [("__panic", any_panic, "Bool"), ("__ret", enc.ret_guard, "Bool")]
    for lab, t in enc.outputs:
        outs.append((lab, t, "Bool" if isinstance(t, bool) or (isinstance(t, str) and _is_bool_term(S, t)) else "Int"))
    common = []
    for k, (lab, t, sort) in enumerate(outs):
        common.append("(declare-fun vo_%d () %s)" % (k, sort))
        common.append("(assert (= vo_%d %s))" % (k, smt.lit(t)))
    t0 = time.time()

    def one(iv):
        idx, (lab, vals, exp) = iv
        lines = list(common)
        for ilab, term in enc.inputs:
            if ilab not in vals:
                return lab, None, "validation vector lacks input %s" % ilab
            lines.append("(assert (= %s %s))" % (term, smt.lit(vals[ilab])))
        lines.append("(check-sat)")
        path = os.path.join(workdir, "validate_%s_%d.smt2" % (enc.name, idx))
        with open(path, "w") as f:
            f.write(S.render(lines))
        a = smt.run_solver("cvc5", path, timeout, extra_args=["--no-arith-brab"])
        if a.status != "sat":
            return lab, None, "pinned inputs are %s in the encoding %s" % (a.status, a.raw.strip()[-160:] if a.status == "error" else "")
        return lab, a.model, None

    mism, n = [], 0
    with concurrent.futures.ThreadPoolExecutor(max_workers=max(1, jobs)) as pool:
        results = list(pool.map(one, enumerate(vectors)))
    for (lab, vals, exp), (_, model, err) in zip(vectors, results):
        if err:
            mism.append("%s: %s" % (lab, err))
            continue
        got = [model.get("vo_%d" % k) for k in range(len(outs))]
        if any(g is None for g in got):
            mism.append("%s: model lacks an output value" % lab)
            continue
        n += 1
        g_panic, g_ret = got[0], got[1]
        if bool(exp["panic"]) != bool(g_panic):
            mism.append("%s: native %s, encoding %s" % (lab, "panics" if exp["panic"] else "returns",
                                                         "panics" if g_panic else "returns"))
            continue
        if exp["panic"]:
            continue
        if g_ret is not True:
            mism.append("%s: encoding does not reach the return for these inputs" % lab)
            continue
        for (olab, _, _), gv in zip(outs[2:], got[2:]):
            if olab in exp["out"] and exp["out"][olab] != gv:
                mism.append("%s: output %s native=%s encoding=%s" % (lab, olab, exp["out"][olab], gv))
    return (not mism and n == len(vectors)), n, mism, time.time() - t0


def _is_bool_term(S, t):
    """Sort of a named term: looked up in the script's declarations / definitions."""
    if t in ("true", "false"):
        return True
    if t.startswith("("):
        return t.startswith(("(not ", "(and ", "(or ", "(= ", "(<", "(>", "(=> "))
    for ln in S.lines:
        if isinstance(ln, tuple):
            continue
        if ln.startswith("(define-fun %s () " % t) or ln.startswith("(declare-fun %s () " % t):
            return ln.split(" () ", 1)[1].startswith("Bool")
    return False
