"""E2-cfg: control-flow abstraction of one MIR body with uninterpreted calls (README.md, section E2-cfg).

The body is unrolled into a DAG (loop bodies at most K times), every call becomes an *effect*, every value the
abstraction does not understand becomes a fresh free integer, so every `switchInt` on it is a free choice; only
constants (drop flags!), `Option`/`Result`/`ControlFlow`/bool variants and a short list of variant-transparent std
combinators are tracked. A model of the guards is one abstract path; the abstract paths are a superset of the concrete
non-panicking executions with <= K iterations per loop, so `unsat` of a negated obligation transfers to the real
code, while `sat` is only a candidate path."""
import os
import re

from . import Unsupported, smt
from .smt import b_and, b_or, b_not, i_eq, i_ne, ite
from .program import Program, simple_type
from .symex import Executor

ENUM_VARIANTS = {"Option": {"None": 0, "Some": 1}, "Result": {"Ok": 0, "Err": 1},
                 "ControlFlow": {"Continue": 0, "Break": 1}, "Poll": {"Ready": 0, "Pending": 1}}
UNKNOWN_ORG = -1


class Effect:
    def __init__(self, eid, kind, node, blk):
        self.id, self.kind, self.node, self.blk = eid, kind, node, blk
        self.callee = self.name = self.method = self.self_ty = self.trait = None
        self.args = []          # canonical access paths of the arguments
        self.argv = []          # abstract values of the arguments (var, org)
        self.dest = None
        self.guard = True
        self.out = None         # variant / boolean of the result (term)
        self.val = None         # for assign / return effects: abstract value (var, org)
        self.closures = []      # closure types named in the callee's generic arguments

    def label(self):
        if self.kind == "call":
            return "bb%d%s: %s(%s)" % (self.blk, _ctx(self.node), self.name, ", ".join(a or "_" for a in self.args))
        if self.kind == "assign":
            return "bb%d%s: %s = .." % (self.blk, _ctx(self.node), self.dest)
        if self.kind == "drop":
            return "bb%d%s: drop(%s)" % (self.blk, _ctx(self.node), self.dest)
        if self.kind == "discr":
            return "bb%d%s: discriminant(%s)" % (self.blk, _ctx(self.node), self.dest)
        return "bb%d%s: %s" % (self.blk, _ctx(self.node), self.kind)


def _ctx(node):
    return "".join("@%d" % k for _, k in node[1]) if node[1] else ""


# variant-transparent std combinators: result variant as a function of the first argument's variant (trusted base)
def _t_same(a):
    return a


def _t_flip(a):
    return ite(i_eq(a, 0), 1, 0) if not isinstance(a, int) else (1 if a == 0 else 0)


def _t_is(k):
    def f(a):
        return (1 if a == k else 0) if isinstance(a, int) else ite(i_eq(a, k), 1, 0)
    return f


TRANSPARENT = {
    ("Result", None, "map_err"): (_t_same, "closure-on-err"),
    ("Result", None, "map"): (_t_same, "closure-on-ok"),
    ("Option", None, "map"): (_t_same, "closure-on-ok"),
    ("Result", None, "ok"): (_t_flip, "keep"),           # Ok(0) -> Some(1), Err(1) -> None(0)
    ("Result", None, "err"): (_t_same, "keep"),          # Ok(0) -> None(0), Err(1) -> Some(1)
    ("Result", "Try", "branch"): (_t_same, "keep"),      # Ok -> Continue(0), Err -> Break(1)
    ("Option", "Try", "branch"): (_t_flip, "keep"),      # Some(1) -> Continue(0), None(0) -> Break(1)
    ("Option", None, "is_none"): (_t_is(0), "keep"),
    ("Option", None, "is_some"): (_t_is(1), "keep"),
    ("Result", None, "is_ok"): (_t_is(0), "keep"),
    ("Result", None, "is_err"): (_t_is(1), "keep"),
    ("Option", None, "as_ref"): (_t_same, "keep"),
    ("Option", None, "as_mut"): (_t_same, "keep"),
    ("Result", None, "as_ref"): (_t_same, "keep"),
}


class Abstraction:
    def __init__(self, program, body, watch_assign=(), loop_iters=2, name=None):
        """watch_assign: regexes on canonical access paths; assignments to matching places become effects."""
        self.P, self.body, self.K = program, body, loop_iters
        self.name = name or body.method
        self.S = smt.Script()
        self.effects, self.returns, self.cuts, self.problems, self.notes = [], [], [], [], []
        self.watch_assign = [re.compile(w) for w in watch_assign]
        self._fields = {}
        self._cfg_reads = {}
        self._defs = {}
        for b in body.blocks.values():
            if b.cleanup:
                continue
            for s in b.stmts:
                if s[0] == "assign" and s[1][0] == "local":
                    self._defs.setdefault(s[1][1], []).append(("rv", s[2]))
            t = b.term
            if t and t[0] == "call" and t[1] is not None and t[1][0] == "local":
                self._defs.setdefault(t[1][1], []).append(("call", b.idx))
        self.params = set(l for l, _ in body.params)
        self.build()

    # ---- canonical access paths

    def struct_fields(self, ty):
        """Field names of a struct declared in the analysed crates (read from the scratch tree), by type name."""
        name = simple_type(ty)
        if name in self._fields:
            return self._fields[name]
        res = None
        if re.fullmatch(r"[A-Z][A-Za-z0-9_]*", name or ""):
            roots = set()
            for b in self.P.bodies:
                m = re.search(r"<impl at ([^:>]+):", b.name)
                if m:
                    roots.add(os.path.dirname(os.path.join(self.P.tree, m.group(1))))
            for root in sorted(roots):
                for dp, _, fs in os.walk(root):
                    for f in fs:
                        if not f.endswith(".rs"):
                            continue
                        try:
                            src = open(os.path.join(dp, f), encoding="utf-8", errors="replace").read()
                        except OSError:
                            continue
                        m = re.search(r"\bstruct %s\b[^;{(]*\{" % re.escape(name), src)
                        if not m:
                            continue
                        depth, i, start = 1, m.end(), m.end()
                        while i < len(src) and depth:
                            depth += {"{": 1, "}": -1}.get(src[i], 0)
                            i += 1
                        bodytxt = re.sub(r"/\*.*?\*/", "", src[start:i - 1], flags=re.S)
                        bodytxt = re.sub(r"//[^\n]*", "", bodytxt)
                        names, d, cur = [], 0, ""
                        for ch in bodytxt:
                            if ch in "<([{":
                                d += 1
                            elif ch in ">)]}":
                                d -= 1
                            if ch == "," and d == 0:
                                names.append(cur)
                                cur = ""
                            else:
                                cur += ch
                        names.append(cur)
                        out = []
                        for n in names:
                            mm = re.search(r"([A-Za-z_][A-Za-z0-9_]*)\s*:", re.sub(r"#\[[^\]]*\]", "", n))
                            if mm:
                                out.append(mm.group(1))
                        if out and res is None:
                            res = out
                        elif out and res != out:
                            res = False      # two different structs of that name: do not guess
        self._fields[name] = res or None
        return self._fields[name]

    def local_type(self, n):
        return self.body.locals.get(n, "?")

    def cpath(self, place, depth=0):
        """Canonical access path of a place: references / derefs are looked through, single-definition temporaries are
        resolved to what they alias, struct fields are named from the source. -> (text, type of the value | None)"""
        k = place[0]
        if k == "local":
            n = place[1]
            ty = self.local_type(n)
            defs = self._defs.get(n, [])
            if n not in self.params and len(defs) == 1 and defs[0][0] == "rv" and depth < 12:
                rv = defs[0][1]
                if rv[0] == "use" and rv[1][0] in ("copy", "move"):
                    return self.cpath(rv[1][1], depth + 1)
                if rv[0] == "ref":
                    return self.cpath(rv[2], depth + 1)
                if rv[0] == "cast" and rv[1][0] in ("copy", "move") and (rv[3].startswith("PointerCoercion") or rv[3] == "Transmute"):
                    return self.cpath(rv[1][1], depth + 1)
            return "_%d" % n, ty
        if k == "deref":
            t, ty = self.cpath(place[1], depth + 1)
            return t, ty
        if k == "field":
            t, bty = self.cpath(place[1], depth + 1)
            names = self.struct_fields(bty) if bty else None
            fname = names[place[2]] if names and place[2] < len(names) else str(place[2])
            root = t if "(" in t or not bty or not re.match(r"^[&\s]*(mut )?[A-Z]", bty.strip()) else "%s(%s)" % (t, simple_type(bty))
            return "%s.%s" % (root, fname), place[3]
        if k == "downcast":
            t, ty = self.cpath(place[1], depth + 1)
            return "%s as %s" % (t, place[2]), ty
        if k in ("index", "cindex"):
            t, ty = self.cpath(place[1], depth + 1)
            return t + "[]", None
        return "?", None

    def opath(self, op):
        if op[0] in ("copy", "move"):
            return self.cpath(op[1])[0]
        return "const " + op[1][:60]

    # ---- abstract values

    def unknown(self, boolish=False):
        v = self.S.declare_int("u", 0 if boolish else None, 1 if boolish else None)
        return (v, UNKNOWN_ORG)

    def boolish_type(self, ty):
        st = simple_type(ty or "")
        return st in ENUM_VARIANTS or st == "bool"

    def read_op(self, env, op):
        if op[0] == "const":
            c = op[1].strip()
            if c == "true":
                return (1, UNKNOWN_ORG)
            if c == "false":
                return (0, UNKNOWN_ORG)
            m = re.fullmatch(r"(-?\d+)_[iu](?:8|16|32|64|128|size)", c)
            if m:
                return (int(m.group(1)), UNKNOWN_ORG)
            segs = re.sub(r"::<[^<>]*(?:<[^<>]*(?:<[^<>]*>[^<>]*)*>[^<>]*)*>", "", c).split("::")
            if len(segs) >= 2 and segs[-2] in ENUM_VARIANTS and segs[-1] in ENUM_VARIANTS[segs[-2]]:
                return (ENUM_VARIANTS[segs[-2]][segs[-1]], UNKNOWN_ORG)
            return self.unknown()
        return self.read_place(env, op[1])

    def read_place(self, env, place):
        if place[0] == "local":
            v = env.get(place[1])
            return v if v is not None else self.unknown(self.boolish_type(self.local_type(place[1])))
        # payload / field / deref of something: variant unknown, provenance of the container is kept
        base = place
        while base[0] != "local":
            base = base[1]
        b = env.get(base[1])
        u = self.unknown(place[0] == "field" and self.boolish_type(place[3]))
        if place[0] == "deref" and b is not None:
            return b
        return (u[0], b[1] if b is not None else UNKNOWN_ORG)

    def rvalue(self, env, rv, site):
        k = rv[0]
        if k == "use":
            return self.read_op(env, rv[1])
        if k == "ref":
            return self.read_place(env, rv[2])
        if k == "cast":
            return self.read_op(env, rv[1])
        if k == "discr":
            if rv[1][0] != "local":
                # discriminant of a field reached from a parameter (configuration read): one free variable per access path
                # when the root is a shared reference (the field cannot change during the call), a fresh one otherwise
                cp, _ = self.cpath(rv[1])
                root = rv[1]
                while root[0] != "local":
                    root = root[1]
                rty = self.local_type(int(cp[1:].split("(")[0].split(".")[0])) if re.match(r"^_\d+", cp) else ""
                stable = rty.startswith("&") and not rty.startswith("&mut")
                if stable and cp in self._cfg_reads:
                    v = self._cfg_reads[cp]
                else:
                    v = self.unknown(True)[0]
                    if stable:
                        self._cfg_reads[cp] = v
                e = self.new_effect("discr", site[0], site[1], site[2])
                e.dest, e.val, e.stable = cp, (v, UNKNOWN_ORG), stable
                return (v, UNKNOWN_ORG)
            v = self.read_place(env, rv[1])
            return (v[0], v[1])
        if k == "adt":
            name = re.sub(r"::<[^<>]*(?:<[^<>]*(?:<[^<>]*>[^<>]*)*>[^<>]*)*>", "", rv[1])
            segs = name.split("::")
            org = UNKNOWN_ORG
            for _, fop in rv[2]:
                o = self.read_op(env, fop)[1]
                if o != UNKNOWN_ORG:
                    org = o          # provenance of the first field that has one
                    break
            if len(segs) >= 2 and segs[-2] in ENUM_VARIANTS and segs[-1] in ENUM_VARIANTS[segs[-2]]:
                return (ENUM_VARIANTS[segs[-2]][segs[-1]], org)
            return (self.unknown()[0], org)
        if k == "unop" and rv[1] == "Not":
            a = self.read_op(env, rv[2])
            return (_t_flip(a[0]), UNKNOWN_ORG)
        if k == "binop" and rv[1] in ("Eq", "Ne"):
            a, b = self.read_op(env, rv[2]), self.read_op(env, rv[3])
            if isinstance(a[0], int) or isinstance(b[0], int):
                c = i_eq(a[0], b[0])
                if rv[1] == "Ne":
                    c = b_not(c)
                if isinstance(c, bool):
                    return (1 if c else 0, UNKNOWN_ORG)
                return (self.S.define_int("c", ite(c, 1, 0)), UNKNOWN_ORG)
        if k == "binop" and rv[1] in ("BitAnd", "BitOr"):
            a, b = self.read_op(env, rv[2]), self.read_op(env, rv[3])
            if isinstance(a[0], int) and isinstance(b[0], int) and a[0] in (0, 1) and b[0] in (0, 1):
                return ((a[0] & b[0]) if rv[1] == "BitAnd" else (a[0] | b[0]), UNKNOWN_ORG)
        return self.unknown(k == "binop" and rv[1] in ("Eq", "Ne", "Lt", "Le", "Gt", "Ge"))

    def merge_envs(self, inc):
        if len(inc) == 1:
            return inc[0]
        g = self.S.define_bool("g", b_or(*[x for x, _ in inc]))
        keys = {}
        for _, e in inc:
            for k in e:
                keys[k] = True
        out = {}
        first = inc[0][1]
        for k in keys:
            v0 = first.get(k)
            if all(e.get(k) == v0 for _, e in inc[1:]):
                if v0 is not None:
                    out[k] = v0
                continue
            have = [(gg, e[k]) for gg, e in inc if k in e]
            if len(have) < len(inc):
                # not defined on every incoming path: dead or conditionally initialised (drop-flag guarded): unknown
                continue
            var, org = have[-1][1]
            for gg, (v, o) in reversed(have[:-1]):
                var, org = ite(gg, v, var), ite(gg, o, org)
            out[k] = (self.S.define_int("m", var), self.S.define_int("mo", org))
        return g, out

    # ---- construction

    def build(self):
        body, S = self.body, self.S
        ex = Executor(self.P)
        ex.loop_bound = lambda b, h, blocks: self.K + 1
        try:
            entry, order, edges = ex.unrolled_order(body)
        except Unsupported as u:
            self.problems.append(str(u))
            return
        self.order, self.edges = order, edges
        self.loops = sorted(ex.cfg(body)[2].keys())
        idx = {n: i for i, n in enumerate(order)}
        self.idx = idx
        anc = [0] * len(order)
        incoming = {entry: [(True, {})]}
        self.node_guard = {}
        for node in order:
            inc = [(g, e) for g, e in incoming.pop(node, []) if g is not False]
            if not inc:
                continue
            g, env = self.merge_envs(inc)
            env = dict(env)
            self.node_guard[node] = g
            blk = body.blocks[node[0]]
            if blk.cleanup:
                self.problems.append("cleanup block bb%d on a normal path" % blk.idx)
                continue
            for s in blk.stmts:
                if s[0] == "nop":
                    continue
                if s[0] != "assign":
                    self.problems.append("statement not recognised in bb%d: %s" % (blk.idx, str(s[1])[:100]))
                    continue
                val = self.rvalue(env, s[2], (node, blk.idx, g)) if s[2][0] != "unsupported" else self.unknown()
                if s[1][0] == "local":
                    env[s[1][1]] = val
                else:
                    base = s[1]
                    while base[0] != "local":
                        base = base[1]
                    cp = self.cpath(s[1])[0]
                    if any(w.search(cp) for w in self.watch_assign):
                        e = self.new_effect("assign", node, blk.idx, g)
                        e.dest, e.val = cp, val
                    if s[1][0] == "deref" and s[1][1][0] == "local":
                        env[base[1]] = val            # whole pointee replaced
                    elif s[1][0] != "field":
                        env.pop(base[1], None)        # element / variant payload write: forget the container
                    # a field write does not change the container's own variant
            t = blk.term
            k = t[0] if t else "none"

            def go(target, eg, eenv):
                nxt = edges[node][target]
                if eg is False:
                    return
                if nxt[0] == "unwind":
                    self.cuts.append((self.S.define_bool("cut", eg), nxt[1], self.K))
                    return
                incoming.setdefault(nxt, []).append((eg, eenv))
                anc[idx[nxt]] |= anc[idx[node]] | (1 << idx[node])

            if k == "goto":
                go(t[1], g, env)
            elif k == "return":
                e = self.new_effect("return", node, blk.idx, g)
                e.val = env.get(0, self.unknown())
                self.returns.append(e)
            elif k == "unreachable":
                self.new_effect("unreachable", node, blk.idx, g)
            elif k == "switch":
                v = self.read_op(env, t[1])[0]
                taken = []
                for val, tgt in t[2]:
                    c = i_eq(v, val)
                    taken.append(c)
                    go(tgt, S.define_bool("g", b_and(g, c)), env)
                if t[3] is not None:
                    go(t[3], S.define_bool("g", b_and(g, *[b_not(c) for c in taken])), env)
            elif k == "assert":
                go(t[4], g, env)          # the panicking side ends the path (not followed, see README)
            elif k == "drop":
                e = self.new_effect("drop", node, blk.idx, g)
                e.dest = self.cpath(t[1])[0]
                if t[2] is not None:
                    go(t[2], g, env)
            elif k == "call":
                e = self.call_effect(env, t, node, blk.idx, g)
                if t[1] is not None and e is not None:
                    if t[1][0] == "local":
                        env[t[1][1]] = (e.out, e.org)
                    else:
                        base = t[1]
                        while base[0] != "local":
                            base = base[1]
                        env.pop(base[1], None)
                # arguments passed by `&mut` may be changed by the callee: forget what is known about them
                for a in t[3]:
                    if a[0] in ("copy", "move") and a[1][0] == "local":
                        for kind, d in self._defs.get(a[1][1], []):
                            if kind == "rv" and d[0] == "ref" and d[1]:
                                base = d[2]
                                while base[0] != "local":
                                    base = base[1]
                                env.pop(base[1], None)
                if t[4] is not None:
                    go(t[4], g, env)
            else:
                self.problems.append("terminator not recognised in bb%d: %s" % (blk.idx, str(t[1] if t and len(t) > 1 else k)[:100]))
        self.anc = anc
        # model read-back: guards / outcomes are define-funs, the dumped model only has declared symbols
        self.mirror = {}
        for e in self.effects:
            gm = S.fresh("eg")
            S.lines.append("(declare-fun %s () Bool)" % gm)
            S.lines.append("(assert (= %s %s))" % (gm, smt.lit(e.guard)))
            om = None
            val = e.out if e.kind == "call" else (e.val[0] if getattr(e, "val", None) is not None else None)
            if val is not None:
                om = S.fresh("eo")
                S.lines.append("(declare-fun %s () Int)" % om)
                S.lines.append("(assert (= %s %s))" % (om, smt.lit(val)))
            self.mirror[e.id] = (gm, om)

    def new_effect(self, kind, node, blk, g):
        e = Effect(len(self.effects), kind, node, blk)
        e.guard = g
        e.org = e.id
        self.effects.append(e)
        return e

    def call_effect(self, env, t, node, blk, g):
        e = self.new_effect("call", node, blk, g)
        e.callee = t[2]
        try:
            pc = Program.parse_callee(t[2])
        except Exception:
            pc = None
        if pc is None or re.match(r"^(move |copy )?_\d+$", t[2].strip()):
            # indirect call through a local (fn pointer / closure value): the target is unknown
            e.name, e.method = "<indirect> " + t[2][:60], "<indirect>"
            self.notes.append("indirect call in bb%d: %s" % (blk, t[2][:80]))
            pc = {"self_ty": None, "trait": None, "method": "<indirect>", "raw": t[2]}
        else:
            e.method, e.self_ty, e.trait = pc["method"], pc["self_ty"], pc["trait"]
            if pc["trait"]:
                e.name = "<%s as %s>::%s" % (pc["self_ty"], pc["trait"], pc["method"])
            elif pc["self_ty"]:
                e.name = "%s::%s" % (pc["self_ty"], pc["method"])
            else:
                e.name = "::".join(pc["path"][-1:] + [pc["method"]])
        e.ops = t[3]
        e.closures = re.findall(r"\{closure@[^}]*\}", t[2])
        e.args = [self.opath(a) for a in t[3]]
        e.argv = [self.read_op(env, a) for a in t[3]]
        e.dest = self.cpath(t[1])[0] if t[1] is not None else None
        dty = self.local_type(t[1][1]) if t[1] is not None and t[1][0] == "local" else None
        e.boolish = self.boolish_type(dty)
        e.ret_ty = dty
        tr = TRANSPARENT.get((pc["self_ty"], pc["trait"], pc["method"]))
        if tr is not None and e.argv:
            f, how = tr
            e.out = self.S.define_int("o", f(e.argv[0][0]))
            if how == "keep":
                e.org = e.argv[0][1]
            elif how == "closure-on-err":
                e.org = self.S.define_int("oo", ite(i_eq(e.argv[0][0], 1), e.id, e.argv[0][1]))
            else:
                e.org = self.S.define_int("oo", ite(i_eq(e.argv[0][0], 1 if pc["self_ty"] == "Option" else 0), e.id, e.argv[0][1]))
            e.transparent = True
        elif pc["method"] == "from_residual" and pc["trait"] == "FromResidual" and e.argv:
            e.out = 1 if pc["self_ty"] == "Result" else 0
            e.org = e.argv[0][1]
            e.transparent = True
        elif (pc["self_ty"], pc["method"]) == ("Option", "filter") and e.argv:
            u = self.unknown(True)[0]
            e.out = self.S.define_int("o", ite(i_eq(e.argv[0][0], 0), 0, u))
            e.org = e.argv[0][1]
            e.transparent = True
        elif (pc["self_ty"], pc["method"]) in (("Option", "unwrap"), ("Option", "expect"), ("Result", "unwrap"), ("Result", "expect"),
                                               ("Option", "unwrap_or")) and e.argv:
            e.out = self.unknown(self.boolish_type(dty))[0]
            e.org = e.argv[0][1]
            e.transparent = True
        else:
            e.out = self.unknown(self.boolish_type(dty))[0]
            e.transparent = False
        return e

    # ---- queries over the effect log

    def calls(self, name_re, arg=None, arg_re=None):
        r = re.compile(name_re)
        out = []
        for e in self.effects:
            if e.kind == "call" and r.search(e.name or ""):
                if arg is not None and not (arg < len(e.args) and re.search(arg_re, e.args[arg] or "")):
                    continue
                out.append(e)
        return out

    def assigns(self, path_re):
        return [e for e in self.effects if e.kind == "assign" and re.search(path_re, e.dest or "")]

    def before(self, a, b):
        """a is executed strictly before b on every path that contains both (DAG ancestor)"""
        ia, ib = self.idx[a.node], self.idx[b.node]
        if ia == ib:
            return a.id < b.id
        return bool((self.anc[ib] >> ia) & 1)

    def some_before(self, x, ys, cond=lambda y: True):
        """term: one of `ys` (with its condition) is executed before x"""
        return b_or(*[b_and(y.guard, cond(y)) for y in ys if self.before(y, x)])

    def path_from_model(self, model):
        """The abstract path of a model: executed effects in order, with the variant each call returned."""
        out = []
        for e in self.effects:
            gm, om = self.mirror[e.id]
            if model.get(gm) is not True:
                continue
            item = {"effect": e.label()}
            if om is not None and model.get(om) is not None:
                if e.kind == "call" and getattr(e, "boolish", False):
                    item["returned"] = _variant_name(e.ret_ty, model[om])
                elif e.kind in ("assign", "return", "discr"):
                    item["variant"] = model[om]
            out.append(item)
        return out

    def derive(self, op, depth=0):
        """Static provenance of an operand: `method(derivations of the args)` through single-definition call results,
        access paths otherwise, `?_n` for a local with several definitions."""
        if op[0] == "const":
            return "const"
        t = self.opath(op)
        m = re.fullmatch(r"_(\d+)((?: as \w+)?(?:\.\w+)*)", t)
        if not m or depth > 8:
            return t
        n = int(m.group(1))
        if n in self.params:
            return t
        d = self._defs.get(n, [])
        if len(d) == 1 and d[0][0] == "call":
            term = self.body.blocks[d[0][1]].term
            try:
                pc = Program.parse_callee(term[2])
                nm = pc["method"]
            except Exception:
                nm = "?"
            return "%s(%s)%s" % (nm, ", ".join(self.derive(a, depth + 1) for a in term[3]), m.group(2))
        if len(d) == 1:
            return t
        return "?" + t

    def arg_is_mut_ref(self, e, i):
        op = e.ops[i]
        if op[0] in ("copy", "move") and op[1][0] == "local":
            d = self._defs.get(op[1][1], [])
            return len(d) == 1 and d[0][0] == "rv" and d[0][1][0] == "ref" and bool(d[0][1][1])
        return False

    def stats(self):
        return "%d blocks -> %d DAG nodes (loops at %s unrolled <= %d iterations), %d effects (%d calls), %d returns" % (
            len([b for b in self.body.blocks.values() if not b.cleanup]), len(self.node_guard), ["bb%d" % h for h in self.loops],
            self.K, len(self.effects), len([e for e in self.effects if e.kind == "call"]), len(self.returns))


def _variant_name(ty, v):
    st = simple_type(ty or "")
    if st == "bool":
        return "true" if v == 1 else "false"
    for n, k in ENUM_VARIANTS.get(st, {}).items():
        if k == v:
            return n
    return v


def closure_body(P, parent, closure_ty):
    """MIR body of the closure whose environment type is `closure_ty` ({closure@file:l:c: l:c})."""
    c = [b for b in P.bodies if b.kind == "fn" and b.params and b.params[0][1].lstrip("&").replace("mut ", "") == closure_ty]
    return c[0] if len(c) == 1 else None


def nested_closures(P, body):
    pre = body.name + "::{closure#"
    return [b for b in P.bodies if b.kind == "fn" and b.name.startswith(pre)]
