"""Hand-written summaries of std functions: the TRUSTED BASE of engine E2.

Each summary restates the documented behaviour of one std function over the integer encoding
(written from library/core sources of the pinned nightly; listed in README.md). A callee that is neither
here nor a MIR body of the analysed crates makes the obligation inconclusive."""
import re

from . import Unsupported
from .smt import (INT_TYPES, ty_range, b_and, b_or, b_not, i_add, i_sub, i_mul, i_le, i_lt, i_ge, i_gt, i_eq,
                  i_ne, ite, in_range)
from .symex import IntV, BoolV, UnitV, Agg, EnumV, RefV, Opaque, duration

NANOS = 1_000_000_000
U64_MAX = (1 << 64) - 1


def _is_dur(v):
    return isinstance(v, Agg) and v.name == "Duration" and len(v.fields) == 2


def _dur_arg(ex, st, v):
    if isinstance(v, RefV):
        v = ex.load(st, v)
        if isinstance(v, RefV):
            v = ex.load(st, v)
    if not _is_dur(v):
        raise Unsupported("expected a Duration, got %r" % (v,))
    return v.fields[0].t, v.fields[1].t


def _int_arg(ex, st, v):
    if isinstance(v, RefV):
        v = ex.load(st, v)
    if not isinstance(v, IntV):
        raise Unsupported("expected an integer, got %r" % (v,))
    return v


def _panic(ex, g, cond, msg):
    """cond = condition under which the summary panics; returns the guard of normal return."""
    ex.add_panic("panic", b_and(g, cond), msg, ex.cur_where + " (summary)")
    return ex.S.define_bool("g", b_and(g, b_not(cond)))


# ---------------------------------------------------------------- Duration

def dur_new(ex, pc, a, st, g):
    secs, nanos = _int_arg(ex, st, a[0]).t, _int_arg(ex, st, a[1]).t
    q, r = ex.trunc_divmod(nanos, NANOS, False)
    carry = i_ge(nanos, NANOS)
    s2 = ex.S.define_int("ds", ite(carry, i_add(secs, q), secs))
    g2 = _panic(ex, g, b_and(carry, i_gt(s2, U64_MAX)), "overflow in Duration::new")
    return duration(s2, ex.S.define_int("dn", ite(carry, r, nanos))), g2


def dur_from_secs(ex, pc, a, st, g):
    return duration(_int_arg(ex, st, a[0]).t, 0), g


def dur_from_millis(ex, pc, a, st, g):
    q, r = ex.trunc_divmod(_int_arg(ex, st, a[0]).t, 1000, False)
    return duration(q, ex.S.define_int("dn", i_mul(r, 1_000_000))), g


def dur_from_micros(ex, pc, a, st, g):
    q, r = ex.trunc_divmod(_int_arg(ex, st, a[0]).t, 1_000_000, False)
    return duration(q, ex.S.define_int("dn", i_mul(r, 1000))), g


def dur_from_nanos(ex, pc, a, st, g):
    q, r = ex.trunc_divmod(_int_arg(ex, st, a[0]).t, NANOS, False)
    return duration(q, r), g


def dur_as_secs(ex, pc, a, st, g):
    return IntV("u64", _dur_arg(ex, st, a[0])[0]), g


def dur_subsec_nanos(ex, pc, a, st, g):
    return IntV("u32", _dur_arg(ex, st, a[0])[1]), g


def dur_subsec_millis(ex, pc, a, st, g):
    q, _ = ex.trunc_divmod(_dur_arg(ex, st, a[0])[1], 1_000_000, False)
    return IntV("u32", q), g


def dur_subsec_micros(ex, pc, a, st, g):
    q, _ = ex.trunc_divmod(_dur_arg(ex, st, a[0])[1], 1000, False)
    return IntV("u32", q), g


def dur_as_millis(ex, pc, a, st, g):
    s, n = _dur_arg(ex, st, a[0])
    q, _ = ex.trunc_divmod(n, 1_000_000, False)
    return IntV("u128", ex.S.define_int("ms", i_add(i_mul(s, 1000), q))), g


def dur_as_micros(ex, pc, a, st, g):
    s, n = _dur_arg(ex, st, a[0])
    q, _ = ex.trunc_divmod(n, 1000, False)
    return IntV("u128", ex.S.define_int("us", i_add(i_mul(s, 1_000_000), q))), g


def dur_as_nanos(ex, pc, a, st, g):
    s, n = _dur_arg(ex, st, a[0])
    return IntV("u128", ex.S.define_int("ns", i_add(i_mul(s, NANOS), n))), g


def _dur_lt(a, b):
    return b_or(i_lt(a[0], b[0]), b_and(i_eq(a[0], b[0]), i_lt(a[1], b[1])))


def _dur_eq(a, b):
    return b_and(i_eq(a[0], b[0]), i_eq(a[1], b[1]))


def dur_cmp(which):
    def f(ex, pc, a, st, g):
        x, y = _dur_arg(ex, st, a[0]), _dur_arg(ex, st, a[1])
        t = {"lt": lambda: _dur_lt(x, y), "le": lambda: b_not(_dur_lt(y, x)), "gt": lambda: _dur_lt(y, x),
             "ge": lambda: b_not(_dur_lt(x, y)), "eq": lambda: _dur_eq(x, y), "ne": lambda: b_not(_dur_eq(x, y))}[which]()
        return BoolV(ex.S.define_bool("dc", t)), g
    return f


def _dur_checked_add(ex, x, y):
    s = ex.S.define_int("ds", i_add(x[0], y[0]))
    n = ex.S.define_int("dn", i_add(x[1], y[1]))
    carry = i_ge(n, NANOS)
    s2 = ex.S.define_int("ds", ite(carry, i_add(s, 1), s))
    n2 = ex.S.define_int("dn", ite(carry, i_sub(n, NANOS), n))
    return i_le(s2, U64_MAX), s2, n2


def _dur_checked_sub(ex, x, y):
    borrow = i_lt(x[1], y[1])
    s = ex.S.define_int("ds", i_sub(i_sub(x[0], y[0]), ite(borrow, 1, 0)))
    n = ex.S.define_int("dn", ite(borrow, i_sub(i_add(x[1], NANOS), y[1]), i_sub(x[1], y[1])))
    return i_ge(s, 0), s, n


def _dur_checked_mul(ex, x, k):
    if not (isinstance(k, int) or isinstance(x[1], int)):
        ex.S.nonlinear = True
    total = ex.S.define_int("tn", i_mul(x[1], k))
    q, r = ex.trunc_divmod(total, NANOS, False)
    s = ex.S.define_int("ds", i_add(i_mul(x[0], k), q))
    return i_le(s, U64_MAX), s, r


def dur_add(ex, pc, a, st, g):
    ok, s, n = _dur_checked_add(ex, _dur_arg(ex, st, a[0]), _dur_arg(ex, st, a[1]))
    return duration(s, n), _panic(ex, g, b_not(ok), "overflow when adding durations")


def dur_sub(ex, pc, a, st, g):
    ok, s, n = _dur_checked_sub(ex, _dur_arg(ex, st, a[0]), _dur_arg(ex, st, a[1]))
    return duration(s, n), _panic(ex, g, b_not(ok), "overflow when subtracting durations")


def dur_mul(ex, pc, a, st, g):
    ok, s, n = _dur_checked_mul(ex, _dur_arg(ex, st, a[0]), _int_arg(ex, st, a[1]).t)
    return duration(s, n), _panic(ex, g, b_not(ok), "overflow when multiplying duration by scalar")


def _opt(ex, ok, val):
    return EnumV("Option", ex.S.define_int("od", ite(ok, 1, 0)), {1: [val]})


def dur_checked_add(ex, pc, a, st, g):
    ok, s, n = _dur_checked_add(ex, _dur_arg(ex, st, a[0]), _dur_arg(ex, st, a[1]))
    return _opt(ex, ok, duration(s, n)), g


def dur_checked_sub(ex, pc, a, st, g):
    ok, s, n = _dur_checked_sub(ex, _dur_arg(ex, st, a[0]), _dur_arg(ex, st, a[1]))
    return _opt(ex, ok, duration(s, n)), g


def dur_saturating_sub(ex, pc, a, st, g):
    ok, s, n = _dur_checked_sub(ex, _dur_arg(ex, st, a[0]), _dur_arg(ex, st, a[1]))
    return duration(ex.S.define_int("ds", ite(ok, s, 0)), ex.S.define_int("dn", ite(ok, n, 0))), g


# ---------------------------------------------------------------- integers

def _target_int(pc, which):
    """Integer type named by the callee: `self` type or the generic argument of the trait."""
    if which == "self":
        t = pc["self_full"]
    else:
        m = re.match(r"^[A-Za-z_:]+<(.*)>$", pc["trait_full"] or "")
        t = m.group(1).strip() if m else None
    return t if t in INT_TYPES else None


def conv_from(ex, pc, a, st, g):
    dst = _target_int(pc, "self")
    src_name = None
    m = re.match(r"^[A-Za-z_:]+<(.*)>$", pc["trait_full"] or "")
    if m:
        src_name = m.group(1).strip()
    v = a[0]
    if src_name is not None and src_name == pc["self_full"]:
        return v, g                      # reflexive impl<T> From<T> for T
    if dst is None:
        raise Unsupported("From::from into %s" % pc["self_full"])
    if isinstance(v, BoolV) and src_name == "bool":
        return IntV(dst, ex.S.define_int("b", ite(v.t, 1, 0))), g
    if isinstance(v, IntV) and v.ty == src_name:
        lo, hi = ty_range(dst)
        slo, shi = ty_range(v.ty)
        # std only implements lossless From between integers (usize/isize: only from u8/u16/i16 resp. u8/i16)
        if slo >= lo and shi <= hi:
            return IntV(dst, v.t), g
    raise Unsupported("From::from(%r) into %s" % (v, dst))


def conv_into(ex, pc, a, st, g):
    dst = _target_int(pc, "trait")
    v = a[0]
    if dst is None:
        raise Unsupported("Into::into -> %s" % pc["trait_full"])
    if isinstance(v, BoolV):
        return IntV(dst, ex.S.define_int("b", ite(v.t, 1, 0))), g
    if isinstance(v, IntV):
        lo, hi = ty_range(dst)
        slo, shi = ty_range(v.ty)
        if slo >= lo and shi <= hi:
            return IntV(dst, v.t), g
    raise Unsupported("Into::into(%r) -> %s" % (v, dst))


def _try_conv(ex, v, dst):
    if not isinstance(v, IntV) or dst is None:
        raise Unsupported("TryFrom/TryInto on %r -> %s" % (v, dst))
    lo, hi = ty_range(dst)
    ok = in_range(v.t, lo, hi)
    # Result<dst, TryFromIntError>: Ok = 0, Err = 1
    return EnumV("Result", ex.S.define_int("rd", ite(ok, 0, 1)), {0: [IntV(dst, v.t)], 1: [UnitV()]})


def conv_try_from(ex, pc, a, st, g):
    return _try_conv(ex, a[0], _target_int(pc, "self")), g


def conv_try_into(ex, pc, a, st, g):
    return _try_conv(ex, a[0], _target_int(pc, "trait")), g


def int_trailing_zeros(ex, pc, a, st, g):
    v = _int_arg(ex, st, a[0])
    signed, bits = INT_TYPES[v.ty]
    if isinstance(v.t, int):
        x = v.t % (1 << bits)
        return IntV("u32", bits if x == 0 else (x & -x).bit_length() - 1), g
    S = ex.S
    tz = S.declare_int("tz", 0, bits)
    # exact for the low ex.tz_bits bits; above that tz is only bounded below (over-approximation, see README)
    for k in range(1, min(ex.tz_bits, bits) + 1):
        _, r = S.floor_divmod(v.t, 1 << k)
        S.lemma("(= (>= %s %d) (= %s 0))" % (tz, k, r))
    S.lemma("(= (= %s %d) (= %s 0))" % (tz, bits, v.t if isinstance(v.t, str) else str(v.t)))
    return IntV("u32", tz), g


def int_wrapping(op):
    def f(ex, pc, a, st, g):
        x, y = _int_arg(ex, st, a[0]), _int_arg(ex, st, a[1])
        lo, hi = ty_range(x.ty)
        if op == "add":
            t, rng = i_add(x.t, y.t), (2 * lo, 2 * hi)
        elif op == "sub":
            t, rng = i_sub(x.t, y.t), (lo - hi, hi - lo)
        else:
            if not (isinstance(x.t, int) or isinstance(y.t, int)):
                ex.S.nonlinear = True
            t = i_mul(x.t, y.t)
            e = max(abs(lo), abs(hi)) ** 2
            rng = (-e if lo < 0 else 0, e)
        return IntV(x.ty, ex.wrap(ex.S.define_int("a", t), rng, x.ty)), g
    return f


def int_saturating(op):
    def f(ex, pc, a, st, g):
        x, y = _int_arg(ex, st, a[0]), _int_arg(ex, st, a[1])
        lo, hi = ty_range(x.ty)
        t = ex.S.define_int("a", i_add(x.t, y.t) if op == "add" else i_sub(x.t, y.t))
        return IntV(x.ty, ex.S.define_int("s", ite(i_gt(t, hi), hi, ite(i_lt(t, lo), lo, t)))), g
    return f


def int_checked(op):
    def f(ex, pc, a, st, g):
        x, y = _int_arg(ex, st, a[0]), _int_arg(ex, st, a[1])
        lo, hi = ty_range(x.ty)
        if op == "mul" and not (isinstance(x.t, int) or isinstance(y.t, int)):
            ex.S.nonlinear = True
        t = ex.S.define_int("a", {"add": i_add, "sub": i_sub, "mul": i_mul}[op](x.t, y.t))
        return _opt(ex, in_range(t, lo, hi), IntV(x.ty, t)), g
    return f


def int_pow(ex, pc, a, st, g):
    base, e = _int_arg(ex, st, a[0]), _int_arg(ex, st, a[1])
    if not isinstance(base.t, int) or base.t < 2:
        raise Unsupported("pow with a non-constant (or < 2) base")
    lo, hi = ty_range(base.ty)
    if isinstance(e.t, int):
        r = base.t ** e.t
        return IntV(base.ty, r), _panic(ex, g, not (lo <= r <= hi), "attempt to multiply with overflow")
    t, k, p = None, 0, 1
    table = []
    while p <= hi:
        table.append((k, p))
        k, p = k + 1, p * base.t
    t = table[-1][1]
    for kk, pp in reversed(table[:-1]):
        t = ite(i_eq(e.t, kk), pp, t)
    g2 = _panic(ex, g, i_gt(e.t, table[-1][0]), "attempt to multiply with overflow")
    return IntV(base.ty, ex.S.define_int("pw", t)), g2


def int_default(ex, pc, a, st, g):
    t = pc["self_full"]
    if t in INT_TYPES:
        return IntV(t, 0), g
    if t == "bool":
        return BoolV(False), g
    raise Unsupported("Default::default for %s" % t)


def int_clone(ex, pc, a, st, g):
    v = ex.load(st, a[0])
    if isinstance(v, (IntV, BoolV)) or _is_dur(v):
        return v, g
    raise Unsupported("Clone::clone of %r" % (v,))


def cmp_minmax(which):
    def f(ex, pc, a, st, g):
        x, y = a[0], a[1]
        if isinstance(x, IntV) and isinstance(y, IntV) and x.ty == y.ty:
            # min: if y < x { y } else { x };  max: if y < x { x } else { y }  (core::cmp::{min,max} via Ord)
            c = i_lt(y.t, x.t)
            t = ite(c, y.t, x.t) if which == "min" else ite(c, x.t, y.t)
            return IntV(x.ty, ex.S.define_int("mm", t)), g
        if _is_dur(x) and _is_dur(y):
            xs, ys = (x.fields[0].t, x.fields[1].t), (y.fields[0].t, y.fields[1].t)
            c = ex.S.define_bool("dc", _dur_lt(ys, xs))
            pick = (lambda p, q: ite(c, q, p)) if which == "min" else (lambda p, q: ite(c, p, q))
            return duration(ex.S.define_int("ds", pick(xs[0], ys[0])), ex.S.define_int("dn", pick(xs[1], ys[1]))), g
        raise Unsupported("cmp::%s on %r" % (which, (x, y)))
    return f


# ---------------------------------------------------------------- Option / Result / Try

def _enum(v, name):
    if not isinstance(v, EnumV) or v.name != name:
        raise Unsupported("expected %s, got %r" % (name, v))
    return v


def result_ok(ex, pc, a, st, g):
    r = _enum(a[0], "Result")
    payload = {1: r.payload[0]} if 0 in r.payload else {}
    return EnumV("Option", ex.S.define_int("od", i_sub(1, r.discr)), payload), g


def result_err(ex, pc, a, st, g):
    r = _enum(a[0], "Result")
    payload = {1: r.payload[1]} if 1 in r.payload else {}
    return EnumV("Option", ex.S.define_int("od", r.discr), payload), g


def unwrap_of(name, good, msg):
    def f(ex, pc, a, st, g):
        o = _enum(a[0], name)
        g2 = _panic(ex, g, i_ne(o.discr, good), msg)
        if good not in o.payload:
            return None, False
        return o.payload[good][0], g2
    return f


def option_is(which):
    def f(ex, pc, a, st, g):
        o = a[0]
        if isinstance(o, RefV):
            o = ex.load(st, o)
        o = _enum(o, "Option")
        return BoolV(ex.S.define_bool("c", i_eq(o.discr, which))), g
    return f


def option_unwrap_or(ex, pc, a, st, g):
    o = _enum(a[0], "Option")
    if 1 not in o.payload:
        return a[1], g
    return ex.merge([(i_eq(o.discr, 1), o.payload[1][0]), (i_ne(o.discr, 1), a[1])]), g


def try_branch(ex, pc, a, st, g):
    v = a[0]
    if isinstance(v, EnumV) and v.name == "Option":
        payload = {1: [EnumV("Option", 0, {})]}
        if 1 in v.payload:
            payload[0] = v.payload[1]
        return EnumV("ControlFlow", ex.S.define_int("cf", i_sub(1, v.discr)), payload), g
    if isinstance(v, EnumV) and v.name == "Result":
        payload = {}
        if 0 in v.payload:
            payload[0] = v.payload[0]
        if 1 in v.payload:
            payload[1] = [EnumV("Result", 1, {1: v.payload[1]})]
        return EnumV("ControlFlow", v.discr, payload), g
    raise Unsupported("Try::branch on %r" % (v,))


def from_residual(ex, pc, a, st, g):
    if pc["self_ty"] == "Option":
        return EnumV("Option", 0, {}), g
    if pc["self_ty"] == "Result":
        # only the identity error conversion:  Result<T, E> from Result<Infallible, E>
        m1 = re.match(r"^Result<.*, (.+)>$", pc["self_full"].split("::")[-1] if "<" not in pc["self_full"].split("::")[0] else pc["self_full"])
        m2 = re.match(r"^FromResidual<.*Result<.*Infallible, (.+)>>$", pc["trait_full"])
        v = a[0]
        if m1 and m2 and m1.group(1) == m2.group(1) and isinstance(v, EnumV) and v.name == "Result" and 1 in v.payload:
            return EnumV("Result", 1, {1: v.payload[1]}), g
    raise Unsupported("FromResidual::from_residual for %s" % pc["self_full"])


# ---------------------------------------------------------------- slice iterator chain (Capacity::next)

def slice_iter(ex, pc, a, st, g):
    if not isinstance(a[0], RefV):
        raise Unsupported("<[T]>::iter on %r" % (a[0],))
    arr = ex.load(st, a[0])
    if not (isinstance(arr, Agg) and arr.kind == "array"):
        raise Unsupported("<[T]>::iter on a non-array")
    # the iterator is a snapshot of the elements (the borrow keeps the array frozen while it lives)
    return Agg("struct", "SliceIterSnapshot", list(arr.fields)), g


def iter_copied(ex, pc, a, st, g):
    if isinstance(a[0], Agg) and a[0].name == "SliceIterSnapshot":
        return a[0], g
    raise Unsupported("Iterator::copied on %r" % (a[0],))


def iter_minmax(which):
    def f(ex, pc, a, st, g):
        it = a[0]
        if not (isinstance(it, Agg) and it.name == "SliceIterSnapshot"):
            raise Unsupported("Iterator::%s on %r" % (which, it))
        if not it.fields:
            return EnumV("Option", 0, {}), g
        if not all(isinstance(x, IntV) for x in it.fields):
            raise Unsupported("Iterator::%s over non-integers" % which)
        cur = it.fields[0].t
        for x in it.fields[1:]:
            c = i_ge(x.t, cur) if which == "max" else i_lt(x.t, cur)
            cur = ex.S.define_int("mx", ite(c, x.t, cur))
        return EnumV("Option", 1, {1: [IntV(it.fields[0].ty, cur)]}), g
    return f


# ---------------------------------------------------------------- table

INT = "<int>"
TABLE = [
    # (self type, trait, method, function, description)
    ("Duration", None, "new", dur_new, "Duration::new (nanos carry, overflow panic)"),
    ("Duration", None, "from_secs", dur_from_secs, "Duration::from_secs"),
    ("Duration", None, "from_millis", dur_from_millis, "Duration::from_millis"),
    ("Duration", None, "from_micros", dur_from_micros, "Duration::from_micros"),
    ("Duration", None, "from_nanos", dur_from_nanos, "Duration::from_nanos"),
    ("Duration", None, "as_secs", dur_as_secs, "Duration::as_secs"),
    ("Duration", None, "subsec_nanos", dur_subsec_nanos, "Duration::subsec_nanos"),
    ("Duration", None, "subsec_millis", dur_subsec_millis, "Duration::subsec_millis"),
    ("Duration", None, "subsec_micros", dur_subsec_micros, "Duration::subsec_micros"),
    ("Duration", None, "as_millis", dur_as_millis, "Duration::as_millis"),
    ("Duration", None, "as_micros", dur_as_micros, "Duration::as_micros"),
    ("Duration", None, "as_nanos", dur_as_nanos, "Duration::as_nanos"),
    ("Duration", None, "checked_add", dur_checked_add, "Duration::checked_add"),
    ("Duration", None, "checked_sub", dur_checked_sub, "Duration::checked_sub"),
    ("Duration", None, "saturating_sub", dur_saturating_sub, "Duration::saturating_sub"),
    ("Duration", "PartialOrd", "lt", dur_cmp("lt"), "Duration: PartialOrd (lexicographic secs, nanos)"),
    ("Duration", "PartialOrd", "le", dur_cmp("le"), "Duration: PartialOrd (lexicographic secs, nanos)"),
    ("Duration", "PartialOrd", "gt", dur_cmp("gt"), "Duration: PartialOrd (lexicographic secs, nanos)"),
    ("Duration", "PartialOrd", "ge", dur_cmp("ge"), "Duration: PartialOrd (lexicographic secs, nanos)"),
    ("Duration", "PartialEq", "eq", dur_cmp("eq"), "Duration: PartialEq"),
    ("Duration", "PartialEq", "ne", dur_cmp("ne"), "Duration: PartialEq"),
    ("Duration", "Add", "add", dur_add, "Duration + Duration (overflow panic)"),
    ("Duration", "Sub", "sub", dur_sub, "Duration - Duration (overflow panic)"),
    ("Duration", "Mul", "mul", dur_mul, "Duration * u32 (overflow panic)"),
    ("Duration", "Clone", "clone", int_clone, "Clone for Copy scalars / Duration"),
    (INT, "From", "from", conv_from, "lossless integer / bool From"),
    (None, "From", "from", conv_from, "reflexive From<T> for T"),
    (INT, "Into", "into", conv_into, "lossless integer Into"),
    ("bool", "Into", "into", conv_into, "bool Into integer"),
    (INT, "TryFrom", "try_from", conv_try_from, "integer TryFrom (Err iff out of range)"),
    (INT, "TryInto", "try_into", conv_try_into, "integer TryInto (Err iff out of range)"),
    (INT, None, "trailing_zeros", int_trailing_zeros, "iN/uN::trailing_zeros (exact for the low 8 bits, bounded above that)"),
    (INT, None, "wrapping_add", int_wrapping("add"), "wrapping_add"),
    (INT, None, "wrapping_sub", int_wrapping("sub"), "wrapping_sub"),
    (INT, None, "wrapping_mul", int_wrapping("mul"), "wrapping_mul"),
    (INT, None, "saturating_add", int_saturating("add"), "saturating_add"),
    (INT, None, "saturating_sub", int_saturating("sub"), "saturating_sub"),
    (INT, None, "checked_add", int_checked("add"), "checked_add"),
    (INT, None, "checked_sub", int_checked("sub"), "checked_sub"),
    (INT, None, "checked_mul", int_checked("mul"), "checked_mul"),
    (INT, None, "pow", int_pow, "uN::pow with a constant base (overflow panic)"),
    (INT, "Default", "default", int_default, "Default for integers / bool"),
    ("bool", "Default", "default", int_default, "Default for integers / bool"),
    (INT, "Clone", "clone", int_clone, "Clone for Copy scalars / Duration"),
    ("Result", None, "ok", result_ok, "Result::ok"),
    ("Result", None, "err", result_err, "Result::err"),
    ("Option", None, "unwrap", unwrap_of("Option", 1, "called `Option::unwrap()` on a `None` value"), "Option::unwrap (panic on None)"),
    ("Option", None, "expect", unwrap_of("Option", 1, "Option::expect on None"), "Option::expect (panic on None)"),
    ("Result", None, "unwrap", unwrap_of("Result", 0, "called `Result::unwrap()` on an `Err` value"), "Result::unwrap (panic on Err)"),
    ("Result", None, "expect", unwrap_of("Result", 0, "Result::expect on Err"), "Result::expect (panic on Err)"),
    ("Option", None, "is_some", option_is(1), "Option::is_some"),
    ("Option", None, "is_none", option_is(0), "Option::is_none"),
    ("Option", None, "unwrap_or", option_unwrap_or, "Option::unwrap_or"),
    ("Option", "Try", "branch", try_branch, "Try::branch for Option / Result (the `?` operator)"),
    ("Result", "Try", "branch", try_branch, "Try::branch for Option / Result (the `?` operator)"),
    ("Option", "FromResidual", "from_residual", from_residual, "FromResidual for Option (None) / Result (identity error)"),
    ("Result", "FromResidual", "from_residual", from_residual, "FromResidual for Option (None) / Result (identity error)"),
    ("[T]", None, "iter", slice_iter, "<[T]>::iter over a fixed-size array (snapshot of the elements)"),
    ("Iter", "Iterator", "copied", iter_copied, "slice::Iter::copied"),
    ("Copied", "Iterator", "max", iter_minmax("max"), "Iterator::max over Copied<slice::Iter<integer>>"),
    ("Copied", "Iterator", "min", iter_minmax("min"), "Iterator::min over Copied<slice::Iter<integer>>"),
]
FREE = {
    "min": (cmp_minmax("min"), "core::cmp::min (integers, Duration)"),
    "max": (cmp_minmax("max"), "core::cmp::max (integers, Duration)"),
}
CONSTANTS = {
    "Duration::ZERO": lambda: duration(0, 0),
    "Duration::MAX": lambda: duration(U64_MAX, NANOS - 1),
    "Duration::SECOND": lambda: duration(1, 0),
    "Duration::MILLISECOND": lambda: duration(0, 1_000_000),
}


def _match_self(want, pc):
    st = pc["self_ty"]
    if want == INT:
        return pc["self_full"] in INT_TYPES
    if want == "[T]":
        return st is not None and st.startswith("[") and st.endswith("]") and ";" not in st
    if want is None:
        return True
    return st == want


def lookup(pc):
    m = pc["method"]
    if pc["self_ty"] is None:
        if m in FREE and pc["path"] and pc["path"][-1] == "cmp":
            return FREE[m][0]
        return None
    for st, tr, me, fn, _ in TABLE:
        if me != m or tr != pc["trait"]:
            continue
        if not _match_self(st, pc):
            continue
        if st is None:
            # reflexive From only
            mm = re.match(r"^[A-Za-z_:]+<(.*)>$", pc["trait_full"] or "")
            if not (mm and mm.group(1).strip() == pc["self_full"]):
                continue
        if st == "Iter" and "slice::Iter" not in (pc["self_full"] or ""):
            continue
        if st == "Copied" and "slice::Iter" not in (pc["self_full"] or ""):
            continue
        return fn
    return None


def describe(pc):
    m = pc["method"]
    if pc["self_ty"] is None and m in FREE:
        return FREE[m][1]
    for st, tr, me, fn, d in TABLE:
        if me == m and tr == pc["trait"] and _match_self(st, pc):
            return d
    return pc["raw"]


def constant(ex, text):
    segs = text.split("::")
    key = "::".join(segs[-2:])
    if key in CONSTANTS:
        return CONSTANTS[key]()
    return None


def is_foreign_adt(name):
    return name in ("Duration", "String", "Vec", "PathBuf", "Box", "Arc")


def all_descriptions():
    seen = []
    for _, _, _, _, d in TABLE:
        if d not in seen:
            seen.append(d)
    for _, d in FREE.values():
        seen.append(d)
    return seen
