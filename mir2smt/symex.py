"""Symbolic execution of MIR bodies into guarded SSA over SMT Ints.

Every basic block gets a guard (Bool), every scalar assignment a `define-fun`; states are merged with
`ite` at join points (so the encoding is linear in the size of the unrolled CFG, not in the number of
paths). Panics (failed `assert` terminators, panicking summaries, `unreachable`) and exhausted loop
unrollings are collected as *obligations* (guard terms) rather than being explored."""
import re

from . import Unsupported
from . import smt
from .smt import (INT_TYPES, ty_range, b_and, b_or, b_not, b_eq, b_xor, i_add, i_sub, i_mul, i_neg,
                  i_le, i_lt, i_ge, i_gt, i_eq, i_ne, ite, in_range)
from .program import Program, simple_type

ENUMS = {
    "Option": {"None": 0, "Some": 1},
    "Result": {"Ok": 0, "Err": 1},
    "ControlFlow": {"Continue": 0, "Break": 1},
    "Ordering": {"Less": -1, "Equal": 0, "Greater": 1},
}


# ---------------------------------------------------------------- values

class IntV:
    __slots__ = ("ty", "t")

    def __init__(self, ty, t):
        self.ty, self.t = ty, t

    def __repr__(self):
        return "%s:%s" % (self.t, self.ty)


class BoolV:
    __slots__ = ("t",)

    def __init__(self, t):
        self.t = t

    def __repr__(self):
        return "%s:bool" % (self.t,)


class UnitV:
    def __repr__(self):
        return "()"


class Agg:
    __slots__ = ("kind", "name", "fields")

    def __init__(self, kind, name, fields):
        self.kind, self.name, self.fields = kind, name, list(fields)

    def __repr__(self):
        return "%s%s%r" % (self.kind[0], self.name or "", self.fields)


class EnumV:
    __slots__ = ("name", "discr", "payload")

    def __init__(self, name, discr, payload):
        self.name, self.discr, self.payload = name, discr, payload

    def __repr__(self):
        return "enum %s[%s]%r" % (self.name, self.discr, self.payload)


class RefV:
    __slots__ = ("cell", "path")

    def __init__(self, cell, path=()):
        self.cell, self.path = cell, tuple(path)

    def __repr__(self):
        return "&%r%r" % (self.cell, self.path)


class Opaque:
    """A value outside the model; any *use* of it is Unsupported (fail closed)."""
    __slots__ = ("what",)

    def __init__(self, what):
        self.what = what

    def __repr__(self):
        return "opaque(%s)" % self.what


def duration(secs, nanos):
    return Agg("struct", "Duration", [IntV("u64", secs), IntV("u32", nanos)])


def option_some(v):
    return EnumV("Option", 1, {1: [v]})


def option_none():
    return EnumV("Option", 0, {})


def same(a, b):
    if a is b:
        return True
    if type(a) is not type(b):
        return False
    if isinstance(a, IntV):
        return a.ty == b.ty and type(a.t) == type(b.t) and a.t == b.t
    if isinstance(a, BoolV):
        return type(a.t) == type(b.t) and a.t == b.t
    if isinstance(a, UnitV):
        return True
    if isinstance(a, Agg):
        return a.kind == b.kind and len(a.fields) == len(b.fields) and all(same(x, y) for x, y in zip(a.fields, b.fields))
    if isinstance(a, EnumV):
        if a.name != b.name or a.discr != b.discr or set(a.payload) != set(b.payload):
            return False
        return all(len(a.payload[k]) == len(b.payload[k]) and all(same(x, y) for x, y in zip(a.payload[k], b.payload[k]))
                   for k in a.payload)
    if isinstance(a, RefV):
        return a.cell == b.cell and a.path == b.path
    return False


class Panic:
    def __init__(self, kind, guard, msg, where, tag):
        self.kind, self.guard, self.msg, self.where, self.tag = kind, guard, msg, where, tag

    def __repr__(self):
        return "<%s %s @%s [%s]>" % (self.kind, self.msg[:50], self.where, self.tag)


# ---------------------------------------------------------------- executor

class Executor:
    def __init__(self, program, script=None, summaries=None):
        self.P = program
        self.S = script or smt.Script()
        self.summaries = summaries
        self.panics = []
        self.tag = ""
        self.frames = 0
        self.loop_bounds = {}        # (method name, header block) -> max number of header visits
        self.default_loop_bound = 8
        self.max_depth = 12
        self.translated = []          # MIR bodies inlined
        self.used_summaries = []
        self.unwound = []             # (fn, header, bound)
        self._cfg_cache = {}
        self._const_cache = {}
        self.stack = []
        self.tz_bits = 8
        self.statics = {}             # cells of evaluated constants / promoteds (read only)

    # ---- bookkeeping

    def note_fn(self, b):
        n = "%s::%s" % (b.crate, "::".join(b.norm))
        if n not in self.translated:
            self.translated.append(n)

    def note_summary(self, name):
        if name not in self.used_summaries:
            self.used_summaries.append(name)

    def where(self, body, blk):
        return "%s bb%d" % ("::".join(body.norm[-2:]), blk)

    def add_panic(self, kind, guard, msg, where):
        """guard: condition under which the panic happens (already conjoined with the block guard)."""
        if guard is False:
            return
        g = self.S.define_bool("p", guard)
        self.panics.append(Panic(kind, g, msg, where, self.tag))

    # ---- integer helpers

    def wrap(self, t, src_range, ty):
        """Value of `t` (known to lie in src_range) converted to machine type ty with two's complement wrap."""
        lo, hi = ty_range(ty)
        slo, shi = src_range
        if slo >= lo and shi <= hi:
            return t
        signed, bits = INT_TYPES[ty]
        m = 1 << bits
        if isinstance(t, int):
            r = t % m
            return r - m if signed and r >= (m >> 1) else r
        # at most one modulus away: a single ite is enough (no fresh integer variable)
        if slo >= lo - m and shi <= hi + m:
            t = self.S.define_int("w", t)
            res = t
            if shi > hi:
                res = ite(i_gt(t, hi), i_sub(t, m), res)
            if slo < lo:
                res = ite(i_lt(t, lo), i_add(t, m), res)
            return self.S.define_int("w", res)
        q, r = self.S.floor_divmod(self.S.define_int("w", t), m)
        if signed:
            return self.S.define_int("w", ite(i_ge(r, m >> 1), i_sub(r, m), r))
        return r

    def trunc_divmod(self, a, d, signed):
        """Rust `/` and `%` (truncation toward zero) for a constant divisor d != 0."""
        if isinstance(a, int):
            q = abs(a) // abs(d)
            if (a < 0) != (d < 0):
                q = -q
            return q, a - q * d
        ad = abs(d)
        fq, fr = self.S.floor_divmod(a, ad)
        if signed:
            neg_adj = b_and(i_lt(a, 0), i_ne(fr, 0))
            q = ite(neg_adj, i_add(fq, 1), fq)
            r = ite(neg_adj, i_sub(fr, ad), fr)
            q = self.S.define_int("tq", q)
            r = self.S.define_int("tr", r)
        else:
            q, r = fq, fr
        if d < 0:
            q = self.S.define_int("tq", i_neg(q))
        return q, r

    # ---- value construction / merging

    def merge(self, pairs):
        """pairs: [(guard term, value)], guards mutually exclusive; returns the ite-merged value."""
        pairs = [(g, v) for g, v in pairs if v is not None]
        if not pairs:
            return None
        first = pairs[0][1]
        if all(same(first, v) for _, v in pairs[1:]):
            return first
        kinds = set(type(v) for _, v in pairs)
        if len(kinds) != 1:
            ops = [v for _, v in pairs if isinstance(v, Opaque)]
            return Opaque("merge of different shapes" + (": " + ops[0].what if ops else ""))
        if isinstance(first, IntV):
            if len(set(v.ty for _, v in pairs)) != 1:
                return Opaque("merge of different int types")
            t = pairs[-1][1].t
            for g, v in reversed(pairs[:-1]):
                t = ite(g, v.t, t)
            return IntV(first.ty, self.S.define_int("m", t))
        if isinstance(first, BoolV):
            t = pairs[-1][1].t
            for g, v in reversed(pairs[:-1]):
                t = ite(g, v.t, t)
            return BoolV(self.S.define_bool("mb", t))
        if isinstance(first, UnitV):
            return first
        if isinstance(first, Agg):
            if len(set((v.kind, len(v.fields)) for _, v in pairs)) != 1:
                return Opaque("merge of aggregates of different shape")
            return Agg(first.kind, first.name,
                       [self.merge([(g, v.fields[i]) for g, v in pairs]) for i in range(len(first.fields))])
        if isinstance(first, EnumV):
            if len(set(v.name for _, v in pairs)) != 1:
                return Opaque("merge of different enums")
            d = pairs[-1][1].discr
            for g, v in reversed(pairs[:-1]):
                d = ite(g, v.discr, d)
            d = self.S.define_int("md", d)
            payload = {}
            for k in set(k for _, v in pairs for k in v.payload):
                have = [(g, v.payload[k]) for g, v in pairs if k in v.payload]
                n = len(have[0][1])
                if any(len(p) != n for _, p in have):
                    return Opaque("merge of enum payloads of different arity")
                payload[k] = [self.merge([(g, p[i]) for g, p in have]) for i in range(n)]
            return EnumV(first.name, d, payload)
        if isinstance(first, RefV):
            return Opaque("merge of different references")
        return Opaque("merge: " + "; ".join(sorted(set(v.what for _, v in pairs if isinstance(v, Opaque))))[:200])

    def merge_stores(self, inc):
        """inc: [(guard, store)] -> (guard, store)"""
        if len(inc) == 1:
            return inc[0]
        g = self.S.define_bool("g", b_or(*[x for x, _ in inc]))
        keys = {}
        for _, st in inc:
            for k in st:
                keys[k] = True
        out = {}
        first = inc[0][1]
        for k in keys:
            v0 = first.get(k)
            if all(st.get(k) is v0 for _, st in inc[1:]):
                if v0 is not None:
                    out[k] = v0
                continue
            out[k] = self.merge([(gg, st.get(k)) for gg, st in inc])
        return g, out

    # ---- memory

    def read_path(self, val, path):
        for i, el in enumerate(path):
            if val is None:
                raise Unsupported("read of an uninitialised place")
            if isinstance(val, Opaque):
                raise Unsupported("projection into %r" % val)
            if el[0] == "f":
                if isinstance(val, Agg):
                    if el[1] >= len(val.fields):
                        raise Unsupported("field %d of %r" % (el[1], val))
                    val = val.fields[el[1]]
                else:
                    raise Unsupported("field projection on %s" % type(val).__name__)
            elif el[0] == "v":
                if not isinstance(val, EnumV) or val.name not in ENUMS or el[1] not in ENUMS[val.name]:
                    raise Unsupported("downcast to %s on %r" % (el[1], type(val).__name__))
                idx = ENUMS[val.name][el[1]]
                if idx not in val.payload:
                    # the variant was never constructed on any path into here: only dead code reads it
                    raise Unsupported("downcast to a variant (%s) that no path constructs" % el[1])
                val = Agg("variant", el[1], val.payload[idx])
            elif el[0] == "i":
                if not isinstance(val, Agg) or val.kind != "array":
                    raise Unsupported("index projection on %s" % type(val).__name__)
                t = el[1]
                if isinstance(t, int):
                    if not (0 <= t < len(val.fields)):
                        raise Unsupported("constant index %d out of bounds (len %d)" % (t, len(val.fields)))
                    val = val.fields[t]
                else:
                    # in-bounds is guaranteed by the bounds-check obligation that precedes every index
                    n = len(val.fields)
                    val = self.merge([(i_eq(t, k), val.fields[k]) for k in range(n)])
            else:
                raise Unsupported("projection %r" % (el,))
        if val is None:
            raise Unsupported("read of an uninitialised place")
        return val

    def write_path(self, val, path, new):
        if not path:
            return new
        el, rest = path[0], path[1:]
        if el[0] == "f":
            if val is None:
                val = Agg("struct", None, [])
            if not isinstance(val, Agg):
                raise Unsupported("field write on %s" % type(val).__name__)
            fields = list(val.fields)
            while len(fields) <= el[1]:
                fields.append(None)
            fields[el[1]] = self.write_path(fields[el[1]], rest, new)
            return Agg(val.kind, val.name, fields)
        if el[0] == "i":
            if not isinstance(val, Agg) or val.kind != "array":
                raise Unsupported("index write on %s" % type(val).__name__)
            t = el[1]
            fields = list(val.fields)
            if isinstance(t, int):
                if not (0 <= t < len(fields)):
                    raise Unsupported("constant index out of bounds")
                fields[t] = self.write_path(fields[t], rest, new)
            else:
                for k in range(len(fields)):
                    upd = self.write_path(fields[k], rest, new)
                    c = i_eq(t, k)
                    fields[k] = self.merge([(c, upd), (b_not(c), fields[k])])
            return Agg(val.kind, val.name, fields)
        raise Unsupported("write through projection %r" % (el,))

    def cell(self, store, key):
        v = store.get(key)
        if v is None:
            v = self.statics.get(key)
        return v

    def load(self, store, ref):
        if not isinstance(ref, RefV):
            raise Unsupported("dereference of %r" % (ref,))
        return self.read_path(self.cell(store, ref.cell), ref.path)

    def store_to(self, store, ref, val):
        if not isinstance(ref, RefV):
            raise Unsupported("store through %r" % (ref,))
        store[ref.cell] = self.write_path(store.get(ref.cell), ref.path, val)

    def resolve_place(self, store, fid, place):
        k = place[0]
        if k == "local":
            return (fid, place[1]), ()
        if k == "deref":
            cell, path = self.resolve_place(store, fid, place[1])
            r = self.read_path(self.cell(store, cell), path)
            if not isinstance(r, RefV):
                raise Unsupported("dereference of %r" % (r,))
            return r.cell, r.path
        cell, path = self.resolve_place(store, fid, place[1])
        if k == "field":
            return cell, path + (("f", place[2]),)
        if k == "downcast":
            return cell, path + (("v", place[2]),)
        if k == "index":
            iv = store.get((fid, place[2]))
            if not isinstance(iv, IntV):
                raise Unsupported("index by %r" % (iv,))
            return cell, path + (("i", iv.t),)
        if k == "cindex":
            if place[3]:
                raise Unsupported("constant index from end")
            return cell, path + (("i", place[2]),)
        raise Unsupported("place %r" % (place,))

    def read_place(self, store, fid, place):
        cell, path = self.resolve_place(store, fid, place)
        return self.read_path(self.cell(store, cell), path)

    # ---- constants

    def const_value(self, text):
        text = text.strip()
        m = re.fullmatch(r"(-?\d+)_([iu](?:8|16|32|64|128|size))", text)
        if m:
            return IntV(m.group(2), int(m.group(1)))
        if text == "true":
            return BoolV(True)
        if text == "false":
            return BoolV(False)
        if text == "()":
            return UnitV()
        m = re.fullmatch(r"([iu](?:8|16|32|64|128|size))::(MIN|MAX)", text)
        if m:
            lo, hi = ty_range(m.group(1))
            return IntV(m.group(1), lo if m.group(2) == "MIN" else hi)
        if text.startswith(('"', "b\"", "'")) or re.match(r"^-?\d+(\.\d+)?(f32|f64)$", text):
            return Opaque("constant " + text[:40])
        # enum unit variants written as constants:  Option::<Infallible>::None
        stripped = re.sub(r"::<[^<>]*(?:<[^<>]*>[^<>]*)*>", "", text)
        segs = stripped.split("::")
        if len(segs) >= 2 and segs[-2] in ENUMS and segs[-1] in ENUMS[segs[-2]]:
            return EnumV(segs[-2], ENUMS[segs[-2]][segs[-1]], {})
        if self.summaries is not None:
            v = self.summaries.constant(self, stripped)
            if v is not None:
                return v
        if text in self._const_cache:
            return self._const_cache[text]
        body = self.P.resolve_const(text)
        if body is None:
            return Opaque("constant " + text[:80])
        if body.const_operand is not None:
            op = body.const_operand
            if not op.startswith("const "):
                raise Unsupported("constant initialiser %r" % op)
            v = self.const_value(op[6:])
        else:
            if body.name in self.stack:
                raise Unsupported("recursive constant %s" % body.name)
            n_before = len(self.panics)
            v, cst, g = self.exec_body(body, [], {}, True, keep_frame=True)
            if len(self.panics) != n_before or g is not True:
                # a constant whose evaluation can panic would not have compiled
                raise Unsupported("constant %s did not fold" % body.name)
            self.statics.update(cst)
        self._const_cache[text] = v
        return v

    def operand(self, store, fid, op):
        if op[0] in ("copy", "move"):
            return self.read_place(store, fid, op[1])
        return self.const_value(op[1])

    # ---- rvalues

    def int_binop(self, op, a, b, body, blk, pair_exact):
        S = self.S
        if op in ("Eq", "Ne", "Lt", "Le", "Gt", "Ge"):
            f = {"Eq": i_eq, "Ne": i_ne, "Lt": i_lt, "Le": i_le, "Gt": i_gt, "Ge": i_ge}[op]
            return BoolV(S.define_bool("c", f(a.t, b.t)))
        ty = a.ty
        lo, hi = ty_range(ty)
        signed, bits = INT_TYPES[ty]
        if op in ("Shl", "Shr", "ShlUnchecked", "ShrUnchecked"):
            if not isinstance(b.t, int):
                raise Unsupported("shift by a non-constant amount")
            sh = b.t % bits
            if op.startswith("Shr"):
                q, _ = S.floor_divmod(a.t, 1 << sh) if sh else (a.t, 0)
                return IntV(ty, q)
            t = i_mul(a.t, 1 << sh)
            return IntV(ty, self.wrap(t, (lo << sh, hi << sh), ty))
        if a.ty != b.ty:
            raise Unsupported("binop %s on %s and %s" % (op, a.ty, b.ty))
        if op in ("Add", "Sub", "Mul", "AddUnchecked", "SubUnchecked", "MulUnchecked",
                  "AddWithOverflow", "SubWithOverflow", "MulWithOverflow"):
            base = op[:3]
            if base == "Add":
                t, rng = i_add(a.t, b.t), (2 * lo, 2 * hi)
            elif base == "Sub":
                t, rng = i_sub(a.t, b.t), (lo - hi, hi - lo)
            else:
                if not (isinstance(a.t, int) or isinstance(b.t, int)):
                    S.nonlinear = True
                t = i_mul(a.t, b.t)
                ext = max(abs(lo), abs(hi)) ** 2
                rng = (-ext if signed else 0, ext)
            t = S.define_int("a", t)
            if op.endswith("WithOverflow"):
                ovf = S.define_bool("o", b_not(in_range(t, lo, hi)))
                exact = t if pair_exact else ite(ovf, self.wrap(t, rng, ty), t)
                return Agg("tuple", None, [IntV(ty, S.define_int("a", exact)), BoolV(ovf)])
            if op.endswith("Unchecked"):
                # UB on overflow: make that an obligation
                self.add_panic("ub", b_and(self.cur_guard, b_not(in_range(t, lo, hi))),
                               "unchecked arithmetic overflow", self.where(body, blk))
                return IntV(ty, t)
            return IntV(ty, self.wrap(t, rng, ty))
        if op in ("Div", "Rem"):
            if isinstance(b.t, int):
                if b.t == 0:
                    raise Unsupported("division by constant zero")
                q, r = self.trunc_divmod(a.t, b.t, signed)
            else:
                # non-constant divisor: SMT div/mod (floor for positive divisors) + truncation fix-up; nonlinear
                S.nonlinear = True
                at, bt = S.define_int("n", a.t), S.define_int("d", b.t)
                if signed:
                    absa = ite(i_lt(at, 0), i_neg(at), at)
                    absb = ite(i_lt(bt, 0), i_neg(bt), bt)
                    qa = S.define_int("q", "(div %s %s)" % (smt.lit(absa), smt.lit(absb)))
                    q = S.define_int("q", ite(b_xor(i_lt(at, 0), i_lt(bt, 0)), i_neg(qa), qa))
                    r = S.define_int("r", i_sub(at, i_mul(q, bt)))
                else:
                    q = S.define_int("q", "(div %s %s)" % (at, bt))
                    r = S.define_int("r", "(mod %s %s)" % (at, bt))
            if op == "Div":
                # i::MIN / -1 is caught by the preceding overflow assert; wrap keeps the value in range anyway
                return IntV(ty, self.wrap(q, (lo, hi + 1), ty) if signed else q)
            return IntV(ty, r)
        if op == "BitAnd" and isinstance(b.t, int) and b.t >= 0 and (b.t & (b.t + 1)) == 0:
            # mask 2^k - 1
            _, r = S.floor_divmod(a.t, b.t + 1)
            return IntV(ty, r)
        if op == "BitAnd" and isinstance(a.t, int) and a.t >= 0 and (a.t & (a.t + 1)) == 0:
            _, r = S.floor_divmod(b.t, a.t + 1)
            return IntV(ty, r)
        if op in ("BitAnd", "BitOr", "BitXor") and isinstance(a.t, int) and isinstance(b.t, int):
            m = 1 << bits
            x, y = a.t % m, b.t % m
            r = {"BitAnd": x & y, "BitOr": x | y, "BitXor": x ^ y}[op]
            return IntV(ty, r - m if signed and r >= (m >> 1) else r)
        raise Unsupported("integer binop %s" % op)

    def rvalue(self, store, fid, rv, body, blk, pair_exact=False):
        S = self.S
        k = rv[0]
        if k == "use":
            return self.operand(store, fid, rv[1])
        if k == "cast":
            v = self.operand(store, fid, rv[1])
            kind, ty = rv[3], rv[2]
            if kind == "IntToInt":
                if ty not in INT_TYPES:
                    raise Unsupported("cast to %s" % ty)
                if isinstance(v, BoolV):
                    return IntV(ty, S.define_int("b", ite(v.t, 1, 0)))
                if isinstance(v, IntV):
                    return IntV(ty, self.wrap(v.t, ty_range(v.ty), ty))
                if isinstance(v, EnumV) and not v.payload:
                    return IntV(ty, self.wrap(v.discr, ty_range("isize"), ty))
                raise Unsupported("IntToInt cast of %r" % (v,))
            if kind.startswith("PointerCoercion(Unsize") and isinstance(v, RefV):
                return v
            raise Unsupported("cast kind %s" % kind)
        if k == "ref":
            cell, path = self.resolve_place(store, fid, rv[2])
            return RefV(cell, path)
        if k == "binop":
            a = self.operand(store, fid, rv[2])
            b = self.operand(store, fid, rv[3])
            op = rv[1]
            if isinstance(a, BoolV) and isinstance(b, BoolV):
                if op == "BitAnd":
                    return BoolV(S.define_bool("c", b_and(a.t, b.t)))
                if op == "BitOr":
                    return BoolV(S.define_bool("c", b_or(a.t, b.t)))
                if op in ("BitXor", "Ne"):
                    return BoolV(S.define_bool("c", b_xor(a.t, b.t)))
                if op == "Eq":
                    return BoolV(S.define_bool("c", b_eq(a.t, b.t)))
                raise Unsupported("bool binop %s" % op)
            if isinstance(a, IntV) and isinstance(b, IntV):
                return self.int_binop(op, a, b, body, blk, pair_exact)
            raise Unsupported("binop %s on %s, %s" % (op, type(a).__name__, type(b).__name__))
        if k == "unop":
            a = self.operand(store, fid, rv[2])
            if rv[1] == "Not" and isinstance(a, BoolV):
                return BoolV(b_not(a.t))
            if rv[1] == "Not" and isinstance(a, IntV):
                lo, hi = ty_range(a.ty)
                return IntV(a.ty, S.define_int("n", i_sub(-1, a.t) if lo < 0 else i_sub(hi, a.t)))
            if rv[1] == "Neg" and isinstance(a, IntV):
                lo, hi = ty_range(a.ty)
                return IntV(a.ty, self.wrap(S.define_int("n", i_neg(a.t)), (-hi, -lo), a.ty))
            raise Unsupported("unop %s on %r" % (rv[1], type(a).__name__))
        if k == "discr":
            v = self.read_place(store, fid, rv[1])
            if isinstance(v, EnumV):
                # rustc's discriminant type: i8 for core::cmp::Ordering (-1, 0, 1), isize for the default repr
                return IntV("i8" if v.name == "Ordering" else "isize", v.discr)
            raise Unsupported("discriminant of %s" % type(v).__name__)
        if k == "len":
            v = self.read_place(store, fid, rv[1])
            if isinstance(v, Agg) and v.kind == "array":
                return IntV("usize", len(v.fields))
            raise Unsupported("Len of %s" % type(v).__name__)
        if k == "array":
            return Agg("array", None, [self.operand(store, fid, o) for o in rv[1]])
        if k == "repeat":
            n = rv[2]
            if not re.fullmatch(r"\d+", n):
                cv = self.const_value(n[6:] if n.startswith("const ") else n)
                if not (isinstance(cv, IntV) and isinstance(cv.t, int)):
                    raise Unsupported("array repeat count %r" % n)
                n = cv.t
            n = int(n)
            if n > 256:
                raise Unsupported("array of %d elements" % n)
            v = self.operand(store, fid, rv[1])
            return Agg("array", None, [v] * n)
        if k == "tuple":
            if not rv[1]:
                return UnitV()
            return Agg("tuple", None, [self.operand(store, fid, o) for o in rv[1]])
        if k == "adt":
            name = re.sub(r"::<[^<>]*(?:<[^<>]*(?:<[^<>]*>[^<>]*)*>[^<>]*)*>", "", rv[1])
            segs = name.split("::")
            vals = [self.operand(store, fid, o) for _, o in rv[2]]
            if len(segs) >= 2 and segs[-2] in ENUMS and segs[-1] in ENUMS[segs[-2]]:
                idx = ENUMS[segs[-2]][segs[-1]]
                return EnumV(segs[-2], idx, {idx: vals} if vals else {})
            if not vals and len(segs) >= 2 and re.match(r"^[A-Z]", segs[-2]):
                # unit variant of an enum we have no layout for
                return Opaque("adt " + name)
            if self.summaries is not None and self.summaries.is_foreign_adt(segs[-1]):
                return Opaque("adt " + name)
            return Agg("struct", segs[-1], vals)
        raise Unsupported("rvalue %s" % (rv[1] if k == "unsupported" else k))

    # ---- CFG analysis / unrolling

    def cfg(self, body):
        if id(body) in self._cfg_cache:
            return self._cfg_cache[id(body)]
        succ = {}
        for i, b in body.blocks.items():
            t = b.term
            k = t[0] if t else None
            if k == "goto":
                s = [t[1]]
            elif k == "switch":
                s = [x for _, x in t[2]] + ([t[3]] if t[3] is not None else [])
            elif k == "assert":
                s = [t[4]]
            elif k == "call":
                s = [t[4]] if t[4] is not None else []
            elif k == "drop":
                s = [t[2]] if t[2] is not None else []
            else:
                s = []
            succ[i] = s
        # back edges by DFS
        color, back = {}, []
        stack = [(0, iter(succ.get(0, [])))]
        color[0] = 1
        while stack:
            u, it = stack[-1]
            for v in it:
                if v not in body.blocks:
                    continue
                if color.get(v, 0) == 0:
                    color[v] = 1
                    stack.append((v, iter(succ.get(v, []))))
                    break
                if color[v] == 1:
                    back.append((u, v))
            else:
                color[u] = 2
                stack.pop()
        pred = {}
        for u, ss in succ.items():
            for v in ss:
                pred.setdefault(v, []).append(u)
        loops = {}
        for u, h in back:
            bodyset = loops.setdefault(h, {h})
            work = [u]
            while work:
                x = work.pop()
                if x in bodyset:
                    continue
                bodyset.add(x)
                work += pred.get(x, [])
        res = (succ, set(back), loops)
        self._cfg_cache[id(body)] = res
        return res

    def loop_bound(self, body, header, blocks):
        key = (body.method, header)
        if key in self.loop_bounds:
            return self.loop_bounds[key]
        best = None
        for bi in blocks:
            b = body.blocks[bi]
            if b.term and b.term[0] == "assert" and "index out of bounds" in b.term[3]:
                for s in b.stmts:
                    if s[0] == "assign" and s[2][0] == "binop" and s[2][1] == "Lt" and s[2][3][0] == "const":
                        m = re.fullmatch(r"(\d+)_usize", s[2][3][1])
                        if m:
                            best = max(best or 0, int(m.group(1)))
        return (best + 1) if best is not None else self.default_loop_bound

    def unrolled_order(self, body):
        """Topological order of the unrolled graph and the edge map.
        node = (block, ctx) with ctx = ((header, iteration), ...) for the enclosing loops."""
        succ, back, loops = self.cfg(body)
        if not loops:
            membership = {}
        else:
            membership = {b: [h for h in loops if b in loops[h]] for b in body.blocks}
        # order enclosing loops outermost first (bigger body first)
        bounds = {h: self.loop_bound(body, h, loops[h]) for h in loops}

        def step(node, v):
            u, ctx = node
            if (u, v) in back:
                pos = None
                for i, (h, _) in enumerate(ctx):
                    if h == v:
                        pos = i
                if pos is None:
                    raise Unsupported("irreducible control flow at bb%d" % v)
                k = ctx[pos][1] + 1
                if k >= bounds[v]:
                    return ("unwind", v, bounds[v])
                return (v, ctx[:pos] + ((v, k),))
            inside = membership.get(v, []) if loops else []
            nctx = tuple((h, k) for h, k in ctx if h in inside)
            if v in loops and not any(h == v for h, _ in nctx):
                nctx = nctx + ((v, 0),)
            return (v, nctx)

        entry = (0, ((0, 0),) if 0 in loops else ())
        edges = {}
        order = []
        state = {entry: 1}
        stack = [(entry, None)]
        # iterative DFS post-order
        itstack = []

        def expand(node):
            out = []
            for v in succ.get(node[0], []):
                out.append((v, step(node, v)))
            edges[node] = dict(out)
            return [t for _, t in out if t[0] != "unwind"]

        itstack.append((entry, iter(expand(entry))))
        while itstack:
            node, it = itstack[-1]
            for nxt in it:
                st = state.get(nxt, 0)
                if st == 0:
                    state[nxt] = 1
                    itstack.append((nxt, iter(expand(nxt))))
                    break
                if st == 1:
                    raise Unsupported("cycle left after unrolling in %s" % body.name)
            else:
                state[node] = 2
                order.append(node)
                itstack.pop()
            if len(state) > 20000:
                raise Unsupported("unrolled CFG too large in %s" % body.name)
        order.reverse()
        return entry, order, edges

    # ---- execution

    def exec_body(self, body, args, store, guard, depth=0, keep_frame=False):
        """-> (return value, store after, guard of normal return)"""
        if depth > self.max_depth or body.name in self.stack:
            raise Unsupported("recursion / call depth at %s" % body.name)
        if len(args) != len(body.params):
            raise Unsupported("arity mismatch calling %s" % body.name)
        self.stack.append(body.name)
        try:
            return self._exec_body(body, args, store, guard, depth, keep_frame)
        finally:
            self.stack.pop()

    def _exec_body(self, body, args, store, guard, depth, keep_frame=False):
        S = self.S
        self.frames += 1
        fid = self.frames
        if body.kind == "fn":
            self.note_fn(body)
        store = dict(store)
        for (l, _), a in zip(body.params, args):
            store[(fid, l)] = a
        entry, order, edges = self.unrolled_order(body)
        incoming = {entry: [(guard, store)]}
        returns = []
        for node in order:
            inc = [(g, s) for g, s in incoming.pop(node, []) if g is not False]
            if not inc:
                continue
            g, st = self.merge_stores(inc)
            st = dict(st)
            blk = body.blocks[node[0]]
            if blk.cleanup:
                raise Unsupported("cleanup block bb%d entered" % blk.idx)
            self.cur_guard = g
            term = blk.term
            # `_p = XWithOverflow(..); assert(!move (_p.1: bool), ..)` in one block: .0 is only read on the
            # success edge, where it equals the exact result
            pair_local = None
            if term and term[0] == "assert" and term[2] and term[1][0] in ("move", "copy"):
                pl = term[1][1]
                if pl[0] == "field" and pl[2] == 1 and pl[1][0] == "local":
                    pair_local = pl[1][1]
            for s in blk.stmts:
                if s[0] == "nop":
                    continue
                if s[0] == "assign":
                    exact = (pair_local is not None and s[1] == ("local", pair_local)
                             and s[2][0] == "binop" and s[2][1].endswith("WithOverflow"))
                    self.cur_guard = g
                    v = self.rvalue(st, fid, s[2], body, blk.idx, pair_exact=exact)
                    cell, path = self.resolve_place(st, fid, s[1])
                    st[cell] = self.write_path(st.get(cell), path, v)
                    continue
                raise Unsupported("statement %s in %s" % (s[1] if len(s) > 1 else s[0], self.where(body, blk.idx)))

            def go(target, eg, est):
                nxt = edges[node][target]
                if nxt[0] == "unwind":
                    if eg is not False:
                        self.add_panic("unwind", eg, "loop at bb%d runs more than %d times" % (nxt[1], nxt[2]),
                                       self.where(body, blk.idx))
                        self.unwound.append((body.method, nxt[1], nxt[2]))
                    return
                if eg is False:
                    return
                incoming.setdefault(nxt, []).append((eg, est))

            k = term[0]
            if k == "goto":
                go(term[1], g, st)
            elif k == "return":
                returns.append((g, st))
            elif k == "unreachable":
                self.add_panic("unreachable", g, "`unreachable` terminator", self.where(body, blk.idx))
            elif k == "switch":
                v = self.operand(st, fid, term[1])
                taken = []
                for val, tgt in term[2]:
                    if isinstance(v, BoolV):
                        c = b_not(v.t) if val == 0 else (v.t if val == 1 else False)
                    elif isinstance(v, IntV):
                        # switch values are printed as the unsigned bit pattern: 255 is -1_i8
                        lo_t, hi_t = ty_range(v.ty)
                        if val > hi_t and lo_t < 0:
                            val -= 1 << INT_TYPES[v.ty][1]
                        if not (lo_t <= val <= hi_t):
                            raise Unsupported("switchInt value %d outside %s" % (val, v.ty))
                        c = i_eq(v.t, val)
                    else:
                        raise Unsupported("switchInt on %r" % type(v).__name__)
                    taken.append(c)
                    go(tgt, S.define_bool("g", b_and(g, c)), st)
                if term[3] is not None:
                    go(term[3], S.define_bool("g", b_and(g, *[b_not(c) for c in taken])), st)
                else:
                    self.add_panic("unreachable", b_and(g, *[b_not(c) for c in taken]), "switchInt without matching arm",
                                   self.where(body, blk.idx))
            elif k == "assert":
                v = self.operand(st, fid, term[1])
                if not isinstance(v, BoolV):
                    raise Unsupported("assert on %r" % type(v).__name__)
                ok = b_not(v.t) if term[2] else v.t
                self.add_panic("panic", b_and(g, b_not(ok)), term[3], self.where(body, blk.idx))
                go(term[4], S.define_bool("g", b_and(g, ok)), st)
            elif k == "drop":
                go(term[2], g, st)
            elif k == "call":
                dest, callee, aops, ret = term[1], term[2], term[3], term[4]
                avals = [self.operand(st, fid, o) for o in aops]
                val, g2 = self.call(callee, avals, st, g, body, blk.idx, depth)
                if ret is not None and g2 is not False:
                    if dest is not None and val is not None:
                        cell, path = self.resolve_place(st, fid, dest)
                        st[cell] = self.write_path(st.get(cell), path, val)
                    go(ret, g2, st)
            elif k == "diverge":
                raise Unsupported("terminator %s outside cleanup" % term[1])
            else:
                raise Unsupported("terminator %s in %s" % (term[1] if len(term) > 1 else k, self.where(body, blk.idx)))
        if not returns:
            return None, store, False
        rg, rst = self.merge_stores(returns)
        rv = rst.get((fid, 0))
        if rv is None:
            rv = UnitV()
        # drop the callee frame
        out = rst if keep_frame else {k: v for k, v in rst.items() if k[0] != fid}
        return rv, out, rg

    def call(self, callee, avals, st, g, body, blk, depth):
        """-> (value | None, guard after the call). May update `st` in place (writes through &mut)."""
        pc = Program.parse_callee(callee)
        if self.summaries is not None:
            fn = self.summaries.lookup(pc)
            if fn is not None:
                self.cur_guard = g
                self.cur_where = self.where(body, blk)
                val, g2 = fn(self, pc, avals, st, g)
                self.note_summary(self.summaries.describe(pc))
                return val, g2
        target = self.P.resolve_fn(pc)
        if target is None:
            raise Unsupported("callee %s (no summary, no MIR body) in %s" % (callee, self.where(body, blk)))
        val, st2, g2 = self.exec_body(target, avals, st, g, depth + 1)
        st.clear()
        st.update(st2)
        return val, g2


# ---------------------------------------------------------------- helpers for obligations

def all_terms(v, out=None):
    """Flatten a value into its scalar terms (in a fixed order)."""
    if out is None:
        out = []
    if isinstance(v, (IntV, BoolV)):
        out.append(v)
    elif isinstance(v, Agg):
        for f in v.fields:
            all_terms(f, out)
    elif isinstance(v, EnumV):
        out.append(IntV("isize", v.discr))
        for k in sorted(v.payload):
            for f in v.payload[k]:
                all_terms(f, out)
    return out
