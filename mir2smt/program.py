"""A set of MIR dumps (one per crate) with name normalisation and callee / constant resolution."""
import os
import re

from . import Unsupported
from .mirparse import parse_dump


def split_path(s):
    """Split at top-level '::' (outside <> () [] {})."""
    out, depth, i, start, n = [], 0, 0, 0, len(s)
    while i < n:
        c = s[i]
        if c in "<([{":
            depth += 1
        elif c in ")]}":
            depth -= 1
        elif c == ">" and not (i > 0 and s[i - 1] in "-="):
            depth -= 1
        elif depth == 0 and s.startswith("::", i):
            out.append(s[start:i])
            start = i + 2
            i += 1
        i += 1
    out.append(s[start:])
    return [x for x in out if x != ""]


def simple_type(t):
    """`&mut core::option::Option<u64>` -> `Option`;  `[usize]` stays; `i64` stays."""
    t = t.strip()
    while True:
        if t.startswith("&"):
            t = t[1:].strip()
            if t.startswith("'"):
                t = t.split(" ", 1)[1] if " " in t else t
            continue
        if t.startswith("mut "):
            t = t[4:].strip()
            continue
        break
    if t.startswith(("[", "(", "{")):
        return t
    segs = split_path(t)
    last = segs[-1] if segs else t
    if last.startswith("<") and len(segs) >= 2:
        last = segs[-2]
    # strip generic args
    k = last.find("<")
    if k > 0:
        last = last[:k]
    return last


IMPL_SEG = re.compile(r"^<impl at (.+?):(\d+):(\d+): (\d+):(\d+)>$")


class Program:
    def __init__(self, tree_root):
        self.tree = tree_root
        self.bodies = []
        self._src = {}
        self._impl_cache = {}
        self.by_method = {}
        self.consts = []

    # ---- loading

    def add_dump(self, text, crate):
        bs = parse_dump(text, crate)
        for b in bs:
            self._normalise(b)
        self.bodies += bs
        for b in bs:
            if b.kind == "fn":
                self.by_method.setdefault(b.method, []).append(b)
            else:
                self.consts.append(b)
        return len(bs)

    def _span_text(self, path, l1, c1, l2, c2):
        if path not in self._src:
            p = os.path.join(self.tree, path)
            try:
                with open(p, encoding="utf-8", errors="replace") as f:
                    self._src[path] = f.read().split("\n")
            except OSError:
                self._src[path] = None
        lines = self._src[path]
        if lines is None or l1 > len(lines):
            return None, None
        if l1 == l2:
            txt = lines[l1 - 1][c1 - 1:c2 - 1]
        else:
            txt = "\n".join([lines[l1 - 1][c1 - 1:]] + lines[l1:l2 - 1] + [lines[l2 - 1][:c2 - 1]])
        return txt, lines

    def _impl_info(self, seg):
        """<impl at file:l:c: l:c>  ->  (self type simple name, trait simple name | None)"""
        if seg in self._impl_cache:
            return self._impl_cache[seg]
        m = IMPL_SEG.match(seg)
        res = (None, None)
        if m:
            path, l1, c1, l2, c2 = m.group(1), int(m.group(2)), int(m.group(3)), int(m.group(4)), int(m.group(5))
            txt, lines = self._span_text(path, l1, c1, l2, c2)
            if txt is not None:
                t = " ".join(txt.split())
                if t.startswith(("impl", "unsafe impl")):
                    t = t.split("impl", 1)[1].strip()
                    if t.startswith("<"):
                        # skip generic parameter list
                        depth = 0
                        for i, c in enumerate(t):
                            if c == "<":
                                depth += 1
                            elif c == ">" and t[i - 1] != "-":
                                depth -= 1
                                if depth == 0:
                                    t = t[i + 1:].strip()
                                    break
                    t = t.split(" where ")[0].strip()
                    if " for " in t:
                        tr, ty = t.split(" for ", 1)
                        res = (simple_type(ty), simple_type(tr))
                    else:
                        res = (simple_type(t), None)
                elif re.fullmatch(r"[A-Za-z_][A-Za-z_0-9:]*", t):
                    # derive(...) entry: the span is the trait name; the type is the next item declaration
                    ty = None
                    for ln in lines[l1 - 1:l1 + 40]:
                        mm = re.match(r"^\s*(?:pub(?:\([^)]*\))?\s+)?(?:struct|enum|union)\s+([A-Za-z_][A-Za-z_0-9]*)", ln)
                        if mm:
                            ty = mm.group(1)
                            break
                    res = (ty, t.split("::")[-1])
        self._impl_cache[seg] = res
        return res

    def _normalise(self, b):
        segs = split_path(b.name)
        norm = []
        b.self_ty = b.trait = None
        for s in segs:
            if s.startswith("<impl at "):
                ty, tr = self._impl_info(s)
                b.self_ty, b.trait = ty, tr
                norm.append(ty or "?")
            else:
                norm.append(s)
        b.norm = norm
        b.method = norm[-1] if norm else b.name
        b.is_closure = any(s.startswith("{closure") for s in norm)

    # ---- callee resolution

    @staticmethod
    def parse_callee(c):
        """-> dict(self_ty, trait, method, generics[list of str], path[list])"""
        c = c.strip()
        out = {"self_ty": None, "trait": None, "method": None, "generics": [], "path": [], "raw": c,
               "self_full": None, "trait_full": None}
        if c.startswith("<"):
            depth = 0
            end = -1
            for i, ch in enumerate(c):
                if ch == "<":
                    depth += 1
                elif ch == ">" and c[i - 1] not in "-=":
                    depth -= 1
                    if depth == 0:
                        end = i
                        break
            inner = c[1:end]
            rest = split_path(c[end + 1:])
            # top-level " as "
            depth, k = 0, -1
            for i, ch in enumerate(inner):
                if ch in "<([":
                    depth += 1
                elif ch in ")]" or (ch == ">" and inner[i - 1] not in "-="):
                    depth -= 1
                elif depth == 0 and inner.startswith(" as ", i):
                    k = i
                    break
            if k >= 0:
                out["self_full"], out["trait_full"] = inner[:k].strip(), inner[k + 4:].strip()
                out["self_ty"], out["trait"] = simple_type(out["self_full"]), simple_type(out["trait_full"])
            else:
                out["self_full"] = inner.strip()
                out["self_ty"] = simple_type(inner)
            segs = rest
        else:
            segs = split_path(c)
        names = []
        for s in segs:
            if s.startswith("<impl "):
                out["self_full"] = s[6:-1].strip()
                out["self_ty"] = simple_type(out["self_full"])
                names.append(out["self_ty"])
            elif s.startswith("<"):
                from .mirparse import split_top
                out["generics"] = split_top(s[1:-1])
            else:
                names.append(s)
        if not names:
            raise Unsupported("callee %r" % c)
        out["method"] = names[-1]
        out["path"] = names[:-1]
        if out["self_ty"] is None and len(names) >= 2 and re.match(r"^[A-Z]", names[-2]):
            out["self_ty"] = names[-2]
            out["self_full"] = names[-2]
        return out

    def resolve_fn(self, pc):
        cands = []
        for b in self.by_method.get(pc["method"], []):
            if b.is_closure:
                continue
            if pc["self_ty"] is not None:
                if b.self_ty != pc["self_ty"]:
                    continue
                if pc["trait"] is not None and b.trait != pc["trait"]:
                    continue
                if pc["trait"] is None and b.trait is not None:
                    continue
            else:
                if b.self_ty is not None:
                    continue
                # free function: module path must be compatible (suffix match on the shorter one)
                bp = b.norm[:-1]
                cp = [x for x in pc["path"]]
                k = min(len(bp), len(cp))
                if k and bp[len(bp) - k:] != cp[len(cp) - k:]:
                    continue
                if not cp and pc["raw"].split("::")[0] in ("std", "core", "alloc"):
                    continue
            cands.append(b)
        if len(cands) > 1:
            raise Unsupported("ambiguous callee %r: %s" % (pc["raw"], [b.name for b in cands][:4]))
        return cands[0] if cands else None

    def find_fn(self, self_ty, method, trait=None):
        """Used by obligations to name their entry points."""
        cands = [b for b in self.by_method.get(method, [])
                 if b.self_ty == self_ty and b.trait == trait and not b.is_closure]
        if len(cands) != 1:
            raise Unsupported("entry point %s::%s: %d candidates in the MIR dump" % (self_ty, method, len(cands)))
        return cands[0]

    def find_free_fn(self, name):
        cands = [b for b in self.by_method.get(name, []) if b.self_ty is None and not b.is_closure]
        if len(cands) != 1:
            raise Unsupported("entry point %s: %d candidates in the MIR dump" % (name, len(cands)))
        return cands[0]

    def resolve_const(self, name):
        """`timestamp::DAYS_PER_400Y`, `timestamp::Timestamp::from_unix::promoted[1]`, `CAPACITY_WINDOW`"""
        want = [re.sub(r"<.*>$", "", s) if not s.startswith("<") else s for s in split_path(name)]
        want = [s for s in want if not s.startswith("<")]
        cands = []
        for b in self.consts:
            have = b.norm
            if not have or have[-1] != want[-1]:
                continue
            k = min(len(have), len(want))
            if have[len(have) - k:] == want[len(want) - k:]:
                cands.append((k, b))
        if not cands:
            return None
        best = max(k for k, _ in cands)
        top = [b for k, b in cands if k == best]
        if len(top) > 1:
            raise Unsupported("ambiguous constant %r" % name)
        return top[0]
